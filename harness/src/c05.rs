//! C05 — files are UFO 3 as an independent implementation reads and writes it.
//!
//! Two directions, both from a generated *abstract font description* `desc` (a PV tree keyed by the names of the
//! UFO 3 specification; the table ident -> key below is this harness's own, not norad's serde table):
//!
//!   `C05 n2i <feat|-> [<pre>] <desc> => <tree>`   (pre = `-` fresh target | `rich` an older, richer UFO is already there |
//!        `junk` a directory with foreign files is there: `Font::save` must leave nothing of it)
//!   `C05 n2i <feat|-> <desc> => <tree>`          the description is turned into a `Font` (struct fields by Rust
//!        identifier), saved with `Font::save`, read back by tools/indep_ufo.py (xml.etree + plistlib) into a
//!        generic value tree; the driver looks the values up under the specification's names.
//!   `C05 i2n <seed> <want|-> [<req>] <desc> => <applied|-> <ok <dump> | err:<class> | panic>`   (req = `all` Font::load |
//!        `default-only` none().default_layer(true) | `all-default` all().default_layer(true) | `named` all().filter_layers(name
//!        of the default layer): loaded through `Font::load_requested_data`)
//!        the description is written by tools/indep_ufo.py with randomised legal surface syntax (seed) and at most
//!        one rare spelling (`want`), loaded with `Font::load` and dumped through public getters in desc form.
//!
//!   `C05 les <n|i> <seed> <desc> <op;op;...|-> => <dump> <tree> | load-err:.. | save-err:..`
//!        load–edit–save: the description is rendered to disk (n = by norad, i = by the independent writer), LOADED with
//!        `Font::load`, edited through the API with names chosen to clash with existing file names (modulo case, modulo
//!        the replacement of illegal characters, upper-case and non-ASCII), saved, and read by the independent reader;
//!        `dump` = the in-memory font after the edits (public getters): every glyph of it must be found under its
//!        contents.plist entry with its own data, no two names may share a file.
//!        op = `ig.<li>.<name>.<k>` insert a new glyph (advance 1000+k) | `mg.<li>.<old>.<new>` rename | `rg.<li>.<name>` remove |
//!             `nl.<name>` new layer | `ml.<old>.<new>` rename layer | `rl.<name>` remove layer   (names hex, li = layer index)
//!
//! PV token format: see tools/indep_ufo.py.  python3 is spawned once per batch.
use crate::common::*;
use crate::rng::Rng;
use norad::fontinfo::*;
use norad::{
    AffineTransform, Anchor, Color, Component, Contour, ContourPoint, Font, FontInfo, Glyph, Guideline, Identifier,
    Image, Line, Name, PointType,
};
use std::collections::BTreeMap;
use std::io::Write;
use std::path::{Path, PathBuf};

// ------------------------------------------------------------------ PV

#[derive(Clone, Debug, PartialEq)]
pub enum PV {
    S(String),
    I(i64),
    R(f64),
    B(bool),
    Data(Vec<u8>),
    Date(String),
    A(Vec<PV>),
    D(BTreeMap<String, PV>),
}

impl PV {
    fn enc(&self, out: &mut Vec<String>) {
        match self {
            PV::S(s) => out.push(format!("s{}", hexs(s))),
            PV::I(i) => out.push(format!("i{}", i)),
            PV::R(r) => out.push(format!("r{}", f64bits(*r))),
            PV::B(b) => out.push(if *b { "T".into() } else { "F".into() }),
            PV::Data(d) => out.push(format!("d{}", hex(d))),
            PV::Date(d) => out.push(format!("D{}", hexs(d))),
            PV::A(a) => {
                out.push("[".into());
                for x in a {
                    x.enc(out);
                }
                out.push("]".into());
            }
            PV::D(d) => {
                out.push("{".into());
                for (k, v) in d {
                    out.push(hexs(k));
                    v.enc(out);
                }
                out.push("}".into());
            }
        }
    }
    pub fn encode(&self) -> String {
        let mut out = Vec::new();
        self.enc(&mut out);
        out.join(",")
    }
    fn dec(toks: &[&str], i: &mut usize) -> PV {
        let t = toks[*i];
        *i += 1;
        let us = |h: &str| String::from_utf8(unhex(h)).unwrap();
        match t.as_bytes()[0] {
            b's' => PV::S(us(&t[1..])),
            b'i' => PV::I(t[1..].parse().unwrap()),
            b'r' => PV::R(f64::from_bits(u64::from_str_radix(&t[1..], 16).unwrap())),
            b'T' => PV::B(true),
            b'F' => PV::B(false),
            b'd' => PV::Data(unhex(&t[1..])),
            b'D' => PV::Date(us(&t[1..])),
            b'[' => {
                let mut v = Vec::new();
                while toks[*i] != "]" {
                    v.push(PV::dec(toks, i));
                }
                *i += 1;
                PV::A(v)
            }
            b'{' => {
                let mut m = BTreeMap::new();
                while toks[*i] != "}" {
                    let k = us(toks[*i]);
                    *i += 1;
                    m.insert(k, PV::dec(toks, i));
                }
                *i += 1;
                PV::D(m)
            }
            _ => panic!("bad PV token {}", t),
        }
    }
    pub fn decode(s: &str) -> PV {
        let toks: Vec<&str> = s.split(',').collect();
        let mut i = 0;
        PV::dec(&toks, &mut i)
    }
    fn get(&self, k: &str) -> Option<&PV> {
        match self {
            PV::D(m) => m.get(k),
            _ => None,
        }
    }
    fn str(&self) -> &str {
        match self {
            PV::S(s) => s,
            _ => panic!("not a string: {:?}", self),
        }
    }
    fn f(&self) -> f64 {
        match self {
            PV::R(r) => *r,
            PV::I(i) => *i as f64,
            _ => panic!("not a number: {:?}", self),
        }
    }
    fn int(&self) -> i64 {
        match self {
            PV::I(i) => *i,
            _ => panic!("not an integer: {:?}", self),
        }
    }
    fn arr(&self) -> &[PV] {
        match self {
            PV::A(a) => a,
            _ => panic!("not an array: {:?}", self),
        }
    }
    fn dict(&self) -> &BTreeMap<String, PV> {
        match self {
            PV::D(d) => d,
            _ => panic!("not a dict: {:?}", self),
        }
    }
}

fn d() -> BTreeMap<String, PV> {
    BTreeMap::new()
}
fn s(x: &str) -> PV {
    PV::S(x.to_string())
}

fn to_plist(v: &PV) -> plist::Value {
    match v {
        PV::S(s) => plist::Value::String(s.clone()),
        PV::I(i) => plist::Value::Integer((*i).into()),
        PV::R(r) => plist::Value::Real(*r),
        PV::B(b) => plist::Value::Boolean(*b),
        PV::Data(d) => plist::Value::Data(d.clone()),
        PV::Date(d) => plist::Value::Date(plist::Date::from_xml_format(d).expect("date")),
        PV::A(a) => plist::Value::Array(a.iter().map(to_plist).collect()),
        PV::D(m) => plist::Value::Dictionary(to_plist_dict(m)),
    }
}
fn to_plist_dict(m: &BTreeMap<String, PV>) -> plist::Dictionary {
    let mut out = plist::Dictionary::new();
    for (k, v) in m {
        out.insert(k.clone(), to_plist(v));
    }
    out
}
fn from_plist(v: &plist::Value) -> PV {
    match v {
        plist::Value::String(s) => PV::S(s.clone()),
        plist::Value::Integer(i) => PV::I(i.as_signed().unwrap_or(i64::MAX)),
        plist::Value::Real(r) => PV::R(*r),
        plist::Value::Boolean(b) => PV::B(*b),
        plist::Value::Data(d) => PV::Data(d.clone()),
        plist::Value::Date(d) => PV::Date(d.to_xml_format()),
        plist::Value::Array(a) => PV::A(a.iter().map(from_plist).collect()),
        plist::Value::Dictionary(m) => PV::D(from_plist_dict(m)),
        _ => PV::S("<unsupported plist value>".into()),
    }
}
fn from_plist_dict(m: &plist::Dictionary) -> BTreeMap<String, PV> {
    m.iter().map(|(k, v)| (k.clone(), from_plist(v))).collect()
}

// ------------------------------------------------------------------ the harness's own fontinfo table: ident -> UFO 3 key

macro_rules! fi_table {
    ($mac:ident) => {
        $mac! {
            str: [
                (copyright, "copyright"), (family_name, "familyName"), (macintosh_fond_name, "macintoshFONDName"),
                (note, "note"), (open_type_head_created, "openTypeHeadCreated"),
                (open_type_name_compatible_full_name, "openTypeNameCompatibleFullName"),
                (open_type_name_description, "openTypeNameDescription"),
                (open_type_name_designer_url, "openTypeNameDesignerURL"), (open_type_name_designer, "openTypeNameDesigner"),
                (open_type_name_license, "openTypeNameLicense"), (open_type_name_license_url, "openTypeNameLicenseURL"),
                (open_type_name_manufacturer, "openTypeNameManufacturer"),
                (open_type_name_manufacturer_url, "openTypeNameManufacturerURL"),
                (open_type_name_preferred_family_name, "openTypeNamePreferredFamilyName"),
                (open_type_name_preferred_subfamily_name, "openTypeNamePreferredSubfamilyName"),
                (open_type_name_sample_text, "openTypeNameSampleText"), (open_type_name_unique_id, "openTypeNameUniqueID"),
                (open_type_name_version, "openTypeNameVersion"), (open_type_name_wws_family_name, "openTypeNameWWSFamilyName"),
                (open_type_name_wws_subfamily_name, "openTypeNameWWSSubfamilyName"),
                (open_type_os2_vendor_id, "openTypeOS2VendorID"), (postscript_default_character, "postscriptDefaultCharacter"),
                (postscript_font_name, "postscriptFontName"), (postscript_full_name, "postscriptFullName"),
                (postscript_weight_name, "postscriptWeightName"), (style_map_family_name, "styleMapFamilyName"),
                (style_name, "styleName"), (trademark, "trademark")
            ],
            int: [
                (macintosh_fond_family_id, "macintoshFONDFamilyID"), (open_type_hhea_ascender, "openTypeHheaAscender"),
                (open_type_hhea_caret_offset, "openTypeHheaCaretOffset"),
                (open_type_hhea_caret_slope_rise, "openTypeHheaCaretSlopeRise"),
                (open_type_hhea_caret_slope_run, "openTypeHheaCaretSlopeRun"),
                (open_type_hhea_descender, "openTypeHheaDescender"), (open_type_hhea_line_gap, "openTypeHheaLineGap"),
                (open_type_os2_strikeout_position, "openTypeOS2StrikeoutPosition"),
                (open_type_os2_strikeout_size, "openTypeOS2StrikeoutSize"),
                (open_type_os2_subscript_x_offset, "openTypeOS2SubscriptXOffset"),
                (open_type_os2_subscript_x_size, "openTypeOS2SubscriptXSize"),
                (open_type_os2_subscript_y_offset, "openTypeOS2SubscriptYOffset"),
                (open_type_os2_subscript_y_size, "openTypeOS2SubscriptYSize"),
                (open_type_os2_superscript_x_offset, "openTypeOS2SuperscriptXOffset"),
                (open_type_os2_superscript_x_size, "openTypeOS2SuperscriptXSize"),
                (open_type_os2_superscript_y_offset, "openTypeOS2SuperscriptYOffset"),
                (open_type_os2_superscript_y_size, "openTypeOS2SuperscriptYSize"),
                (open_type_os2_typo_ascender, "openTypeOS2TypoAscender"),
                (open_type_os2_typo_descender, "openTypeOS2TypoDescender"),
                (open_type_os2_typo_line_gap, "openTypeOS2TypoLineGap"),
                (open_type_vhea_caret_offset, "openTypeVheaCaretOffset"),
                (open_type_vhea_caret_slope_rise, "openTypeVheaCaretSlopeRise"),
                (open_type_vhea_caret_slope_run, "openTypeVheaCaretSlopeRun"),
                (open_type_vhea_vert_typo_ascender, "openTypeVheaVertTypoAscender"),
                (open_type_vhea_vert_typo_descender, "openTypeVheaVertTypoDescender"),
                (open_type_vhea_vert_typo_line_gap, "openTypeVheaVertTypoLineGap"),
                (postscript_unique_id, "postscriptUniqueID"), (version_major, "versionMajor"), (year, "year")
            ],
            uint: [
                (open_type_head_lowest_rec_ppem, "openTypeHeadLowestRecPPEM"),
                (open_type_os2_weight_class, "openTypeOS2WeightClass"), (open_type_os2_win_ascent, "openTypeOS2WinAscent"),
                (open_type_os2_win_descent, "openTypeOS2WinDescent"), (version_minor, "versionMinor"),
                (woff_major_version, "woffMajorVersion"), (woff_minor_version, "woffMinorVersion")
            ],
            num: [
                (ascender, "ascender"), (cap_height, "capHeight"), (descender, "descender"), (italic_angle, "italicAngle"),
                (postscript_blue_fuzz, "postscriptBlueFuzz"), (postscript_blue_shift, "postscriptBlueShift"),
                (postscript_default_width_x, "postscriptDefaultWidthX"),
                (postscript_nominal_width_x, "postscriptNominalWidthX"), (postscript_slant_angle, "postscriptSlantAngle"),
                (postscript_underline_position, "postscriptUnderlinePosition"),
                (postscript_underline_thickness, "postscriptUnderlineThickness"), (x_height, "xHeight")
            ],
            boolean: [
                (postscript_force_bold, "postscriptForceBold"), (postscript_is_fixed_pitch, "postscriptIsFixedPitch")
            ],
            bits: [
                (open_type_head_flags, "openTypeHeadFlags"), (open_type_os2_code_page_ranges, "openTypeOS2CodePageRanges"),
                (open_type_os2_selection, "openTypeOS2Selection"), (open_type_os2_type, "openTypeOS2Type"),
                (open_type_os2_unicode_ranges, "openTypeOS2UnicodeRanges")
            ],
            numlist: [
                (postscript_blue_values, "postscriptBlueValues"), (postscript_family_blues, "postscriptFamilyBlues"),
                (postscript_family_other_blues, "postscriptFamilyOtherBlues"),
                (postscript_other_blues, "postscriptOtherBlues"), (postscript_stem_snap_h, "postscriptStemSnapH"),
                (postscript_stem_snap_v, "postscriptStemSnapV")
            ]
        }
    };
}

macro_rules! fi_set {
    (str: [$(($sf:ident, $sk:expr)),*], int: [$(($if_:ident, $ik:expr)),*], uint: [$(($uf:ident, $uk:expr)),*],
     num: [$(($nf:ident, $nk:expr)),*], boolean: [$(($bf:ident, $bk:expr)),*], bits: [$(($tf:ident, $tk:expr)),*],
     numlist: [$(($lf:ident, $lk:expr)),*]) => {
        fn fi_set_simple(fi: &mut FontInfo, k: &str, v: &PV) -> bool {
            match k {
                $($sk => fi.$sf = Some(v.str().to_string()),)*
                $($ik => fi.$if_ = Some(v.int() as i32),)*
                $($uk => fi.$uf = Some(v.int() as u32),)*
                $($nk => fi.$nf = Some(v.f()),)*
                $($bk => fi.$bf = Some(matches!(v, PV::B(true))),)*
                $($tk => fi.$tf = Some(v.arr().iter().map(|x| x.int() as u8).collect()),)*
                $($lk => fi.$lf = Some(v.arr().iter().map(|x| x.f()).collect()),)*
                _ => return false,
            }
            true
        }
        fn fi_get_simple(fi: &FontInfo, out: &mut BTreeMap<String, PV>) {
            $(if let Some(v) = &fi.$sf { out.insert($sk.into(), PV::S(v.clone())); })*
            $(if let Some(v) = &fi.$if_ { out.insert($ik.into(), PV::I(*v as i64)); })*
            $(if let Some(v) = &fi.$uf { out.insert($uk.into(), PV::I(*v as i64)); })*
            $(if let Some(v) = &fi.$nf { out.insert($nk.into(), PV::R(*v)); })*
            $(if let Some(v) = &fi.$bf { out.insert($bk.into(), PV::B(*v)); })*
            $(if let Some(v) = &fi.$tf { out.insert($tk.into(), PV::A(v.iter().map(|x| PV::I(*x as i64)).collect())); })*
            $(if let Some(v) = &fi.$lf { out.insert($lk.into(), PV::A(v.iter().map(|x| PV::R(*x)).collect())); })*
        }
        const STR_KEYS: &[&str] = &[$($sk),*];
        const INT_KEYS: &[&str] = &[$($ik),*];
        const UINT_KEYS: &[&str] = &[$($uk),*];
        const NUM_KEYS: &[&str] = &[$($nk),*];
        const BOOL_KEYS: &[&str] = &[$($bk),*];
        const BITS_KEYS: &[&str] = &[$($tk),*];
        const NUMLIST_KEYS: &[&str] = &[$($lk),*];
    };
}
fi_table!(fi_set);

fn color_of(v: &PV) -> Color {
    let a = v.arr();
    Color::new(a[0].f(), a[1].f(), a[2].f(), a[3].f()).expect("color")
}
fn color_pv(c: &Color) -> PV {
    let (r, g, b, a) = c.channels();
    PV::A(vec![PV::R(r), PV::R(g), PV::R(b), PV::R(a)])
}
fn opt_str(m: &BTreeMap<String, PV>, k: &str) -> Option<String> {
    m.get(k).map(|v| v.str().to_string())
}
fn put_opt(m: &mut BTreeMap<String, PV>, k: &str, v: &Option<String>) {
    if let Some(v) = v {
        m.insert(k.into(), PV::S(v.clone()));
    }
}
fn dir_of(m: &BTreeMap<String, PV>) -> Option<WoffAttributeDirection> {
    m.get("dir").map(|v| if v.str() == "rtl" { WoffAttributeDirection::RightToLeft } else { WoffAttributeDirection::LeftToRight })
}
fn put_dir(m: &mut BTreeMap<String, PV>, v: &Option<WoffAttributeDirection>) {
    if let Some(v) = v {
        m.insert("dir".into(), s(if *v == WoffAttributeDirection::RightToLeft { "rtl" } else { "ltr" }));
    }
}
fn text_records(v: &PV) -> Vec<WoffMetadataTextRecord> {
    v.arr()
        .iter()
        .map(|r| {
            let m = r.dict();
            WoffMetadataTextRecord {
                text: m["text"].str().to_string(),
                language: opt_str(m, "language"),
                dir: dir_of(m),
                class: opt_str(m, "class"),
            }
        })
        .collect()
}
fn text_records_pv(v: &[WoffMetadataTextRecord]) -> PV {
    PV::A(
        v.iter()
            .map(|r| {
                let mut m = d();
                m.insert("text".into(), PV::S(r.text.clone()));
                put_opt(&mut m, "language", &r.language);
                put_dir(&mut m, &r.dir);
                put_opt(&mut m, "class", &r.class);
                PV::D(m)
            })
            .collect(),
    )
}

fn guideline_of(m: &BTreeMap<String, PV>) -> Guideline {
    let line = match (m.get("x"), m.get("y"), m.get("angle")) {
        (Some(x), None, None) => Line::Vertical(x.f()),
        (None, Some(y), None) => Line::Horizontal(y.f()),
        (Some(x), Some(y), Some(a)) => Line::Angle { x: x.f(), y: y.f(), degrees: a.f() },
        _ => panic!("bad guideline description"),
    };
    Guideline::new(
        line,
        m.get("name").map(|n| Name::new(n.str()).unwrap()),
        m.get("color").map(color_of),
        m.get("identifier").map(|i| Identifier::new(i.str()).unwrap()),
    )
}
fn guideline_pv(g: &Guideline) -> PV {
    let mut m = d();
    match g.line {
        Line::Vertical(x) => {
            m.insert("x".into(), PV::R(x));
        }
        Line::Horizontal(y) => {
            m.insert("y".into(), PV::R(y));
        }
        Line::Angle { x, y, degrees } => {
            m.insert("x".into(), PV::R(x));
            m.insert("y".into(), PV::R(y));
            m.insert("angle".into(), PV::R(degrees));
        }
    }
    if let Some(n) = &g.name {
        m.insert("name".into(), s(n));
    }
    if let Some(c) = &g.color {
        m.insert("color".into(), color_pv(c));
    }
    if let Some(i) = g.identifier() {
        m.insert("identifier".into(), s(i.as_str()));
    }
    PV::D(m)
}

fn fontinfo_of(desc: &BTreeMap<String, PV>) -> FontInfo {
    let mut fi = FontInfo::default();
    for (k, v) in desc {
        if fi_set_simple(&mut fi, k, v) {
            continue;
        }
        match k.as_str() {
            "postscriptBlueScale" => fi.postscript_blue_scale = Some(v.f()),
            "unitsPerEm" => fi.units_per_em = Some(NonNegativeIntegerOrFloat::new(v.f()).unwrap()),
            "styleMapStyleName" => {
                fi.style_map_style_name = Some(match v.str() {
                    "regular" => StyleMapStyle::Regular,
                    "italic" => StyleMapStyle::Italic,
                    "bold" => StyleMapStyle::Bold,
                    _ => StyleMapStyle::BoldItalic,
                })
            }
            "openTypeOS2WidthClass" => {
                use Os2WidthClass::*;
                let t = [UltraCondensed, ExtraCondensed, Condensed, SemiCondensed, Normal, SemiExpanded, Expanded, ExtraExpanded, UltraExpanded];
                fi.open_type_os2_width_class = Some(t[(v.int() - 1) as usize]);
            }
            "postscriptWindowsCharacterSet" => {
                use PostscriptWindowsCharacterSet::*;
                let t = [Ansi, Default, Symbol, Macintosh, ShiftJis, Hangul, HangulJohab, Gb2312, ChineseBig5, Greek, Turkish,
                         Vietnamese, Hebrew, Arabic, Baltic, Bitstream, Cyrillic, Thai, EasternEuropean, Oem];
                fi.postscript_windows_character_set = Some(t[(v.int() - 1) as usize]);
            }
            "openTypeOS2FamilyClass" => {
                let a = v.arr();
                fi.open_type_os2_family_class = Some(Os2FamilyClass { class_id: a[0].int() as u8, subclass_id: a[1].int() as u8 });
            }
            "openTypeOS2Panose" => {
                let a: Vec<u32> = v.arr().iter().map(|x| x.int() as u32).collect();
                fi.open_type_os2_panose = Some(Os2Panose {
                    family_type: a[0], serif_style: a[1], weight: a[2], proportion: a[3], contrast: a[4],
                    stroke_variation: a[5], arm_style: a[6], letterform: a[7], midline: a[8], x_height: a[9],
                });
            }
            "openTypeGaspRangeRecords" => {
                fi.open_type_gasp_range_records = Some(
                    v.arr()
                        .iter()
                        .map(|r| GaspRangeRecord {
                            range_max_ppem: r.get("rangeMaxPPEM").unwrap().int() as u32,
                            range_gasp_behavior: r.get("rangeGaspBehavior").unwrap().arr().iter()
                                .map(|b| match b.int() {
                                    0 => GaspBehavior::Gridfit,
                                    1 => GaspBehavior::DoGray,
                                    2 => GaspBehavior::SymmetricGridfit,
                                    _ => GaspBehavior::SymmetricSmoothing,
                                })
                                .collect(),
                        })
                        .collect(),
                )
            }
            "openTypeNameRecords" => {
                fi.open_type_name_records = Some(
                    v.arr()
                        .iter()
                        .map(|r| NameRecord {
                            name_id: r.get("nameID").unwrap().int() as u32,
                            platform_id: r.get("platformID").unwrap().int() as u32,
                            encoding_id: r.get("encodingID").unwrap().int() as u32,
                            language_id: r.get("languageID").unwrap().int() as u32,
                            string: r.get("string").unwrap().str().to_string(),
                        })
                        .collect(),
                )
            }
            "guidelines" => fi.guidelines = Some(v.arr().iter().map(|g| guideline_of(g.dict())).collect()),
            "woffMetadataUniqueID" => {
                fi.woff_metadata_unique_id = Some(WoffMetadataUniqueId { id: v.get("id").unwrap().str().to_string() })
            }
            "woffMetadataVendor" => {
                let m = v.dict();
                fi.woff_metadata_vendor = Some(WoffMetadataVendor {
                    name: m["name"].str().to_string(),
                    url: m["url"].str().to_string(),
                    dir: dir_of(m),
                    class: opt_str(m, "class"),
                })
            }
            "woffMetadataCredits" => {
                fi.woff_metadata_credits = Some(WoffMetadataCredits {
                    credits: v.get("credits").unwrap().arr().iter()
                        .map(|c| {
                            let m = c.dict();
                            WoffMetadataCredit {
                                name: m["name"].str().to_string(),
                                url: opt_str(m, "url"),
                                role: opt_str(m, "role"),
                                dir: dir_of(m),
                                class: opt_str(m, "class"),
                            }
                        })
                        .collect(),
                })
            }
            "woffMetadataCopyright" => {
                fi.woff_metadata_copyright = Some(WoffMetadataCopyright { text: text_records(v.get("text").unwrap()) })
            }
            "woffMetadataTrademark" => {
                fi.woff_metadata_trademark = Some(WoffMetadataTrademark { text: text_records(v.get("text").unwrap()) })
            }
            "woffMetadataDescription" => {
                fi.woff_metadata_description =
                    Some(WoffMetadataDescription { url: opt_str(v.dict(), "url"), text: text_records(v.get("text").unwrap()) })
            }
            "woffMetadataLicense" => {
                fi.woff_metadata_license = Some(WoffMetadataLicense {
                    url: opt_str(v.dict(), "url"),
                    id: opt_str(v.dict(), "id"),
                    text: text_records(v.get("text").unwrap()),
                })
            }
            "woffMetadataLicensee" => {
                let m = v.dict();
                fi.woff_metadata_licensee =
                    Some(WoffMetadataLicensee { name: m["name"].str().to_string(), dir: dir_of(m), class: opt_str(m, "class") })
            }
            other => panic!("fontinfo key {} not handled by the harness", other),
        }
    }
    fi
}

fn fontinfo_pv(fi: &FontInfo) -> BTreeMap<String, PV> {
    let mut out = d();
    fi_get_simple(fi, &mut out);
    if let Some(v) = fi.postscript_blue_scale {
        out.insert("postscriptBlueScale".into(), PV::R(v));
    }
    if let Some(v) = &fi.units_per_em {
        out.insert("unitsPerEm".into(), PV::R(v.as_f64()));
    }
    if let Some(v) = &fi.style_map_style_name {
        out.insert(
            "styleMapStyleName".into(),
            s(match v {
                StyleMapStyle::Regular => "regular",
                StyleMapStyle::Italic => "italic",
                StyleMapStyle::Bold => "bold",
                StyleMapStyle::BoldItalic => "bold italic",
            }),
        );
    }
    if let Some(v) = &fi.open_type_os2_width_class {
        out.insert("openTypeOS2WidthClass".into(), PV::I(*v as u8 as i64));
    }
    if let Some(v) = &fi.postscript_windows_character_set {
        out.insert("postscriptWindowsCharacterSet".into(), PV::I(*v as u8 as i64));
    }
    if let Some(v) = &fi.open_type_os2_family_class {
        out.insert("openTypeOS2FamilyClass".into(), PV::A(vec![PV::I(v.class_id as i64), PV::I(v.subclass_id as i64)]));
    }
    if let Some(p) = &fi.open_type_os2_panose {
        let a = [p.family_type, p.serif_style, p.weight, p.proportion, p.contrast, p.stroke_variation, p.arm_style, p.letterform, p.midline, p.x_height];
        out.insert("openTypeOS2Panose".into(), PV::A(a.iter().map(|x| PV::I(*x as i64)).collect()));
    }
    if let Some(v) = &fi.open_type_gasp_range_records {
        out.insert(
            "openTypeGaspRangeRecords".into(),
            PV::A(v.iter()
                .map(|r| {
                    let mut m = d();
                    m.insert("rangeMaxPPEM".into(), PV::I(r.range_max_ppem as i64));
                    m.insert("rangeGaspBehavior".into(), PV::A(r.range_gasp_behavior.iter().map(|b| PV::I(*b as u8 as i64)).collect()));
                    PV::D(m)
                })
                .collect()),
        );
    }
    if let Some(v) = &fi.open_type_name_records {
        out.insert(
            "openTypeNameRecords".into(),
            PV::A(v.iter()
                .map(|r| {
                    let mut m = d();
                    m.insert("nameID".into(), PV::I(r.name_id as i64));
                    m.insert("platformID".into(), PV::I(r.platform_id as i64));
                    m.insert("encodingID".into(), PV::I(r.encoding_id as i64));
                    m.insert("languageID".into(), PV::I(r.language_id as i64));
                    m.insert("string".into(), PV::S(r.string.clone()));
                    PV::D(m)
                })
                .collect()),
        );
    }
    if let Some(v) = &fi.guidelines {
        out.insert("guidelines".into(), PV::A(v.iter().map(guideline_pv).collect()));
    }
    if let Some(v) = &fi.woff_metadata_unique_id {
        let mut m = d();
        m.insert("id".into(), PV::S(v.id.clone()));
        out.insert("woffMetadataUniqueID".into(), PV::D(m));
    }
    if let Some(v) = &fi.woff_metadata_vendor {
        let mut m = d();
        m.insert("name".into(), PV::S(v.name.clone()));
        m.insert("url".into(), PV::S(v.url.clone()));
        put_dir(&mut m, &v.dir);
        put_opt(&mut m, "class", &v.class);
        out.insert("woffMetadataVendor".into(), PV::D(m));
    }
    if let Some(v) = &fi.woff_metadata_credits {
        let mut m = d();
        m.insert(
            "credits".into(),
            PV::A(v.credits.iter()
                .map(|c| {
                    let mut m = d();
                    m.insert("name".into(), PV::S(c.name.clone()));
                    put_opt(&mut m, "url", &c.url);
                    put_opt(&mut m, "role", &c.role);
                    put_dir(&mut m, &c.dir);
                    put_opt(&mut m, "class", &c.class);
                    PV::D(m)
                })
                .collect()),
        );
        out.insert("woffMetadataCredits".into(), PV::D(m));
    }
    if let Some(v) = &fi.woff_metadata_copyright {
        let mut m = d();
        m.insert("text".into(), text_records_pv(&v.text));
        out.insert("woffMetadataCopyright".into(), PV::D(m));
    }
    if let Some(v) = &fi.woff_metadata_trademark {
        let mut m = d();
        m.insert("text".into(), text_records_pv(&v.text));
        out.insert("woffMetadataTrademark".into(), PV::D(m));
    }
    if let Some(v) = &fi.woff_metadata_description {
        let mut m = d();
        put_opt(&mut m, "url", &v.url);
        m.insert("text".into(), text_records_pv(&v.text));
        out.insert("woffMetadataDescription".into(), PV::D(m));
    }
    if let Some(v) = &fi.woff_metadata_license {
        let mut m = d();
        put_opt(&mut m, "url", &v.url);
        put_opt(&mut m, "id", &v.id);
        m.insert("text".into(), text_records_pv(&v.text));
        out.insert("woffMetadataLicense".into(), PV::D(m));
    }
    if let Some(v) = &fi.woff_metadata_licensee {
        let mut m = d();
        m.insert("name".into(), PV::S(v.name.clone()));
        put_dir(&mut m, &v.dir);
        put_opt(&mut m, "class", &v.class);
        out.insert("woffMetadataLicensee".into(), PV::D(m));
    }
    if fi.woff_metadata_extensions.is_some() {
        out.insert("woffMetadataExtensions".into(), s("<not dumped by the harness>"));
    }
    out
}

// ------------------------------------------------------------------ glyphs: description <-> norad objects

const OBJECT_LIBS: &str = "public.objectLibs";

fn transform_of(m: &BTreeMap<String, PV>) -> AffineTransform {
    AffineTransform {
        x_scale: m["xScale"].f(),
        xy_scale: m["xyScale"].f(),
        yx_scale: m["yxScale"].f(),
        y_scale: m["yScale"].f(),
        x_offset: m["xOffset"].f(),
        y_offset: m["yOffset"].f(),
    }
}
fn put_transform(m: &mut BTreeMap<String, PV>, t: &AffineTransform) {
    m.insert("xScale".into(), PV::R(t.x_scale));
    m.insert("xyScale".into(), PV::R(t.xy_scale));
    m.insert("yxScale".into(), PV::R(t.yx_scale));
    m.insert("yScale".into(), PV::R(t.y_scale));
    m.insert("xOffset".into(), PV::R(t.x_offset));
    m.insert("yOffset".into(), PV::R(t.y_offset));
    // the affine meaning of the six coefficients, through norad's own arithmetic: images of (1,0), (0,1), (0,0)
    let mut probe = Vec::new();
    for (x, y) in [(1.0, 0.0), (0.0, 1.0), (0.0, 0.0)] {
        let mut p = ContourPoint::new(x, y, PointType::Line, false, None, None);
        p.transform(*t);
        probe.push(PV::R(p.x));
        probe.push(PV::R(p.y));
    }
    m.insert("#probe".into(), PV::A(probe));
}
fn ident_of(m: &BTreeMap<String, PV>) -> Option<Identifier> {
    m.get("identifier").map(|i| Identifier::new(i.str()).unwrap())
}
fn name_of(m: &BTreeMap<String, PV>) -> Option<Name> {
    m.get("name").map(|n| Name::new(n.str()).unwrap())
}
fn ptype(sv: &str) -> PointType {
    match sv {
        "move" => PointType::Move,
        "line" => PointType::Line,
        "curve" => PointType::Curve,
        "qcurve" => PointType::QCurve,
        _ => PointType::OffCurve,
    }
}
fn ptype_str(t: &PointType) -> &'static str {
    match t {
        PointType::Move => "move",
        PointType::Line => "line",
        PointType::OffCurve => "offcurve",
        PointType::Curve => "curve",
        PointType::QCurve => "qcurve",
    }
}

fn glyph_of(g: &BTreeMap<String, PV>) -> Glyph {
    let mut out = Glyph::new(g["name"].str());
    out.width = g.get("width").map(|v| v.f()).unwrap_or(0.0);
    out.height = g.get("height").map(|v| v.f()).unwrap_or(0.0);
    if let Some(u) = g.get("unicodes") {
        out.codepoints.set(u.arr().iter().map(|c| char::from_u32(c.int() as u32).unwrap()));
    }
    out.note = g.get("note").map(|n| n.str().to_string());
    let mut lib = g.get("lib").map(|l| l.dict().clone()).unwrap_or_default();
    let mut olibs = match lib.remove(OBJECT_LIBS) {
        Some(PV::D(m)) => m,
        _ => d(),
    };
    let mut take = |id: &Option<Identifier>| -> Option<plist::Dictionary> {
        id.as_ref().and_then(|i| olibs.remove(i.as_str())).map(|l| to_plist_dict(l.dict()))
    };
    if let Some(im) = g.get("image") {
        let m = im.dict();
        out.image = Some(Image::new(PathBuf::from(m["fileName"].str()), m.get("color").map(color_of), transform_of(m)).unwrap());
    }
    for gl in g.get("guidelines").map(|v| v.arr()).unwrap_or(&[]) {
        let mut x = guideline_of(gl.dict());
        if let Some(l) = take(&x.identifier().cloned()) {
            x.replace_lib(l);
        }
        out.guidelines.push(x);
    }
    for an in g.get("anchors").map(|v| v.arr()).unwrap_or(&[]) {
        let m = an.dict();
        let id = ident_of(m);
        let mut a = Anchor::new(m["x"].f(), m["y"].f(), name_of(m), m.get("color").map(color_of), id.clone());
        if let Some(l) = take(&id) {
            a.replace_lib(l);
        }
        out.anchors.push(a);
    }
    for c in g.get("contours").map(|v| v.arr()).unwrap_or(&[]) {
        let m = c.dict();
        let mut pts = Vec::new();
        for p in m["points"].arr() {
            let pm = p.dict();
            let id = ident_of(pm);
            let mut pt = ContourPoint::new(pm["x"].f(), pm["y"].f(), ptype(pm["type"].str()), matches!(pm["smooth"], PV::B(true)), name_of(pm), id.clone());
            if let Some(l) = take(&id) {
                pt.replace_lib(l);
            }
            pts.push(pt);
        }
        let id = ident_of(m);
        let mut ct = Contour::new(pts, id.clone());
        if let Some(l) = take(&id) {
            ct.replace_lib(l);
        }
        out.contours.push(ct);
    }
    for c in g.get("components").map(|v| v.arr()).unwrap_or(&[]) {
        let m = c.dict();
        let id = ident_of(m);
        let mut co = Component::new(Name::new(m["base"].str()).unwrap(), transform_of(m), id.clone());
        if let Some(l) = take(&id) {
            co.replace_lib(l);
        }
        out.components.push(co);
    }
    assert!(olibs.is_empty(), "object lib without object in description");
    out.lib = to_plist_dict(&lib);
    out
}

fn glyph_pv(g: &Glyph) -> PV {
    let mut m = d();
    m.insert("name".into(), s(g.name()));
    m.insert("width".into(), PV::R(g.width));
    m.insert("height".into(), PV::R(g.height));
    if !g.codepoints.is_empty() {
        m.insert("unicodes".into(), PV::A(g.codepoints.iter().map(|c| PV::I(c as u32 as i64)).collect()));
    }
    if let Some(n) = &g.note {
        m.insert("note".into(), PV::S(n.clone()));
    }
    let mut olibs = d();
    let mut keep = |id: Option<&Identifier>, lib: Option<&plist::Dictionary>| {
        if let (Some(id), Some(lib)) = (id, lib) {
            olibs.insert(id.as_str().to_string(), PV::D(from_plist_dict(lib)));
        }
    };
    if let Some(im) = &g.image {
        let mut x = d();
        x.insert("fileName".into(), s(&im.file_name().to_string_lossy()));
        put_transform(&mut x, &im.transform);
        if let Some(c) = &im.color {
            x.insert("color".into(), color_pv(c));
        }
        m.insert("image".into(), PV::D(x));
    }
    if !g.guidelines.is_empty() {
        m.insert("guidelines".into(), PV::A(g.guidelines.iter().map(|x| { keep(x.identifier(), x.lib()); guideline_pv(x) }).collect()));
    }
    if !g.anchors.is_empty() {
        let mut v = Vec::new();
        for a in &g.anchors {
            keep(a.identifier(), a.lib());
            let mut x = d();
            x.insert("x".into(), PV::R(a.x));
            x.insert("y".into(), PV::R(a.y));
            if let Some(n) = &a.name {
                x.insert("name".into(), s(n));
            }
            if let Some(c) = &a.color {
                x.insert("color".into(), color_pv(c));
            }
            if let Some(i) = a.identifier() {
                x.insert("identifier".into(), s(i.as_str()));
            }
            v.push(PV::D(x));
        }
        m.insert("anchors".into(), PV::A(v));
    }
    if !g.contours.is_empty() {
        let mut v = Vec::new();
        for c in &g.contours {
            keep(c.identifier(), c.lib());
            let mut x = d();
            if let Some(i) = c.identifier() {
                x.insert("identifier".into(), s(i.as_str()));
            }
            let mut pts = Vec::new();
            for p in &c.points {
                keep(p.identifier(), p.lib());
                let mut pm = d();
                pm.insert("x".into(), PV::R(p.x));
                pm.insert("y".into(), PV::R(p.y));
                pm.insert("type".into(), s(ptype_str(&p.typ)));
                pm.insert("smooth".into(), PV::B(p.smooth));
                if let Some(n) = &p.name {
                    pm.insert("name".into(), s(n));
                }
                if let Some(i) = p.identifier() {
                    pm.insert("identifier".into(), s(i.as_str()));
                }
                pts.push(PV::D(pm));
            }
            x.insert("points".into(), PV::A(pts));
            v.push(PV::D(x));
        }
        m.insert("contours".into(), PV::A(v));
    }
    if !g.components.is_empty() {
        let mut v = Vec::new();
        for c in &g.components {
            keep(c.identifier(), c.lib());
            let mut x = d();
            x.insert("base".into(), s(&c.base));
            put_transform(&mut x, &c.transform);
            if let Some(i) = c.identifier() {
                x.insert("identifier".into(), s(i.as_str()));
            }
            v.push(PV::D(x));
        }
        m.insert("components".into(), PV::A(v));
    }
    let mut lib = from_plist_dict(&g.lib);
    if !olibs.is_empty() {
        lib.insert(OBJECT_LIBS.into(), PV::D(olibs));
    }
    if !lib.is_empty() {
        m.insert("lib".into(), PV::D(lib));
    }
    PV::D(m)
}

// ------------------------------------------------------------------ fonts

fn font_of(desc: &PV) -> Font {
    let mut font = Font::new();
    if let Some(fi) = desc.get("fontinfo") {
        font.font_info = fontinfo_of(fi.dict());
    }
    let mut lib = desc.get("lib").map(|l| l.dict().clone()).unwrap_or_default();
    if let Some(PV::D(mut olibs)) = lib.remove(OBJECT_LIBS) {
        if let Some(gs) = &mut font.font_info.guidelines {
            for g in gs {
                if let Some(l) = g.identifier().and_then(|i| olibs.remove(i.as_str())) {
                    g.replace_lib(to_plist_dict(l.dict()));
                }
            }
        }
        assert!(olibs.is_empty());
    }
    font.lib = to_plist_dict(&lib);
    if let Some(g) = desc.get("groups") {
        for (k, v) in g.dict() {
            font.groups.insert(Name::new(k).unwrap(), v.arr().iter().map(|n| Name::new(n.str()).unwrap()).collect());
        }
    }
    if let Some(k) = desc.get("kerning") {
        for (a, row) in k.dict() {
            let mut r = BTreeMap::new();
            for (b, v) in row.dict() {
                r.insert(Name::new(b).unwrap(), v.f());
            }
            font.kerning.insert(Name::new(a).unwrap(), r);
        }
    }
    if let Some(f) = desc.get("features") {
        font.features = f.str().to_string();
    }
    for (i, l) in desc.get("layers").unwrap().arr().iter().enumerate() {
        let m = l.dict();
        let name = m["name"].str();
        let layer = if i == 0 {
            assert_eq!(m["dir"].str(), "glyphs");
            if name != "public.default" {
                font.layers.rename_layer("public.default", name, false).unwrap();
            }
            font.layers.default_layer_mut()
        } else {
            font.layers.new_layer(name).unwrap()
        };
        layer.color = m.get("color").map(color_of);
        if let Some(lib) = m.get("lib") {
            layer.lib = to_plist_dict(lib.dict());
        }
        for g in m.get("glyphs").map(|v| v.arr()).unwrap_or(&[]) {
            layer.insert_glyph(glyph_of(g.dict()));
        }
    }
    for (k, v) in desc.get("data").map(|v| v.dict().clone()).unwrap_or_default() {
        if let PV::Data(b) = v {
            font.data.insert(PathBuf::from(k), b).unwrap();
        }
    }
    for (k, v) in desc.get("images").map(|v| v.dict().clone()).unwrap_or_default() {
        if let PV::Data(b) = v {
            font.images.insert(PathBuf::from(k), b).unwrap();
        }
    }
    font
}

fn font_pv(font: &Font) -> PV {
    let mut m = d();
    let mut fi = fontinfo_pv(&font.font_info);
    let mut lib = from_plist_dict(&font.lib);
    let mut olibs = d();
    for g in font.font_info.guidelines.as_deref().unwrap_or(&[]) {
        if let (Some(id), Some(l)) = (g.identifier(), g.lib()) {
            olibs.insert(id.as_str().to_string(), PV::D(from_plist_dict(l)));
        }
    }
    if !olibs.is_empty() {
        lib.insert(OBJECT_LIBS.into(), PV::D(olibs));
    }
    if !fi.is_empty() {
        m.insert("fontinfo".into(), PV::D(std::mem::take(&mut fi)));
    }
    if !lib.is_empty() {
        m.insert("lib".into(), PV::D(lib));
    }
    if !font.groups.is_empty() {
        m.insert(
            "groups".into(),
            PV::D(font.groups.iter().map(|(k, v)| (k.to_string(), PV::A(v.iter().map(|n| s(n)).collect()))).collect()),
        );
    }
    if !font.kerning.is_empty() {
        m.insert(
            "kerning".into(),
            PV::D(font.kerning.iter()
                .map(|(k, row)| (k.to_string(), PV::D(row.iter().map(|(b, v)| (b.to_string(), PV::R(*v))).collect())))
                .collect()),
        );
    }
    if !font.features.is_empty() {
        m.insert("features".into(), PV::S(font.features.clone()));
    }
    let mut layers = Vec::new();
    for l in font.layers.iter() {
        let mut x = d();
        x.insert("name".into(), s(l.name()));
        x.insert("dir".into(), s(&l.path().to_string_lossy()));
        if let Some(c) = &l.color {
            x.insert("color".into(), color_pv(c));
        }
        if !l.lib.is_empty() {
            x.insert("lib".into(), PV::D(from_plist_dict(&l.lib)));
        }
        // glyph order is not part of the data: sorted by name (BTreeMap order)
        x.insert("glyphs".into(), PV::A(l.iter().map(glyph_pv).collect()));
        layers.push(PV::D(x));
    }
    m.insert("layers".into(), PV::A(layers));
    let store = |it: Vec<(PathBuf, Vec<u8>)>| -> PV {
        PV::D(it.into_iter().map(|(k, v)| (k.to_string_lossy().replace('\\', "/"), PV::Data(v))).collect())
    };
    let data: Vec<_> = font.data.iter().filter_map(|(k, v)| v.ok().map(|b| (k.clone(), b.to_vec()))).collect();
    if !data.is_empty() {
        m.insert("data".into(), store(data));
    }
    let images: Vec<_> = font.images.iter().filter_map(|(k, v)| v.ok().map(|b| (k.clone(), b.to_vec()))).collect();
    if !images.is_empty() {
        m.insert("images".into(), store(images));
    }
    PV::D(m)
}

// ------------------------------------------------------------------ generator of descriptions

const STRINGS: &[&str] = &[
    "a", "Regular", "Some Family", "x < y & z > w", "quote \" and ' apostrophe", "caf\u{e9} \u{4e2d}\u{6587}", "\u{1F600} astral",
    "two  blanks", "line1\nline2", "tab\there", "]]> cdata end", "&amp; already", "100%", "a/b\\c", "\u{2028}sep",
];
const GLYPH_NAMES: &[&str] = &[
    "a", "A", "a.alt", "uni0041", "\u{e9}", "x y", "q\"<&>'", "A_B", ".notdef", "space", "b", "zero.sups", "\u{c4}*", "\u{416}.sc", "T_H", "\u{c4}_x", "f_f_i",
];
/// names that the user-name-to-file-name convention maps to ONE file name (they differ only in characters that are
/// illegal in file names, or in a leading period vs. underscore), with ASCII and with non-ASCII capitals: the second
/// of a pair must get a numbered file name
const CLASH_PAIRS: &[(&str, &str)] = &[
    ("\u{c4}*", "\u{c4}?"), (".\u{416}", "_\u{416}"), ("A*", "A?"), ("\u{c9}|x", "\u{c9}\"x"), ("\u{3a9}:", "\u{3a9}/"),
    ("\u{c4}*", "\u{e4}_*"),
];
const IDENTS: &[&str] = &["id1", "ID2", "a b", "q\"<&>'", "~tilde~", "0123456789", "x.y-z_w", "{curly}", "p#1", "p#2", "p#3", "p#4"];

fn pick_str(rng: &mut Rng) -> String {
    rng.pick(STRINGS).to_string()
}
/// strings for places where line breaks or edge blanks are altered by recorded C02 defects (glyph lib, note)
fn pick_plain(rng: &mut Rng) -> String {
    loop {
        let x = *rng.pick(STRINGS);
        if !x.contains('\n') {
            return x.to_string();
        }
    }
}
fn num(rng: &mut Rng) -> PV {
    match rng.below(6) {
        0 => PV::R(0.0),
        1 => PV::R(rng.range(-2000, 2000) as f64),
        2 => PV::R(rng.range(-4000, 4000) as f64 / 8.0),
        3 => PV::R(rng.range(-999, 999) as f64 / 10.0),
        4 => PV::R(rng.range(1, 99) as f64 / 1000.0),
        _ => PV::R(rng.range(-100000, 100000) as f64 + 0.25),
    }
}
fn nonzero(rng: &mut Rng) -> PV {
    loop {
        let v = num(rng);
        if v.f() != 0.0 {
            return v;
        }
    }
}
fn color(rng: &mut Rng) -> PV {
    let ch = |rng: &mut Rng| PV::R(*rng.pick(&[0.0, 1.0, 0.5, 0.25, 0.123, 0.75, 0.999, 0.001]));
    PV::A(vec![ch(rng), ch(rng), ch(rng), ch(rng)])
}
fn lib_value(rng: &mut Rng, depth: u32, plain: bool) -> PV {
    let st = |rng: &mut Rng| if plain { pick_plain(rng) } else { pick_str(rng) };
    match rng.below(if depth >= 2 { 7 } else { 9 }) {
        0 => PV::S(st(rng)),
        1 => PV::I(rng.range(-100000, 100000)),
        2 => PV::R(rng.range(-999, 999) as f64 / 4.0 + 0.125),
        3 => PV::B(rng.chance(1, 2)),
        4 => PV::Data((0..rng.below(6)).map(|_| rng.below(256) as u8).collect()),
        5 => PV::Date(format!("20{:02}-0{}-1{}T0{}:30:0{}Z", rng.below(30), 1 + rng.below(9), rng.below(9), rng.below(9), rng.below(9))),
        6 => PV::S(String::new()),
        7 => PV::A((0..rng.below(4)).map(|_| lib_value(rng, depth + 1, plain)).collect()),
        _ => PV::D(lib_dict(rng, depth + 1, plain)),
    }
}
fn lib_dict(rng: &mut Rng, depth: u32, plain: bool) -> BTreeMap<String, PV> {
    let keys = ["com.example.key", "public.glyphOrder", "k", "key with blank", "k<&>", "\u{e9}cl\u{e9}", "z.last", "public.postscriptNames"];
    let mut m = d();
    for _ in 0..rng.below(4) {
        m.insert(rng.pick(&keys).to_string(), lib_value(rng, depth, plain));
    }
    m
}

fn transform(rng: &mut Rng, m: &mut BTreeMap<String, PV>) {
    let ident = rng.chance(1, 4);
    let pickd = |rng: &mut Rng, dflt: f64| -> PV {
        if ident || rng.chance(1, 3) {
            PV::R(dflt)
        } else {
            // values that distinguish the six coefficients from each other
            PV::R(*rng.pick(&[2.0, -1.0, 0.5, 3.0, 0.25, -0.75, 12.0, 100.5, -7.0]))
        }
    };
    m.insert("xScale".into(), pickd(rng, 1.0));
    m.insert("xyScale".into(), pickd(rng, 0.0));
    m.insert("yxScale".into(), pickd(rng, 0.0));
    m.insert("yScale".into(), pickd(rng, 1.0));
    m.insert("xOffset".into(), pickd(rng, 0.0));
    m.insert("yOffset".into(), pickd(rng, 0.0));
}

fn guideline(rng: &mut Rng, ids: &mut Vec<String>, allow_id: bool) -> PV {
    let mut m = d();
    match rng.below(3) {
        0 => {
            m.insert("x".into(), num(rng));
        }
        1 => {
            m.insert("y".into(), num(rng));
        }
        _ => {
            m.insert("x".into(), num(rng));
            m.insert("y".into(), num(rng));
            m.insert("angle".into(), PV::R(*rng.pick(&[0.0, 45.0, 90.0, 360.0, 12.5, 359.75])));
        }
    }
    if rng.chance(1, 2) {
        m.insert("name".into(), s(&pick_plain(rng).replace('\t', " ")));
    }
    if rng.chance(1, 2) {
        m.insert("color".into(), color(rng));
    }
    if allow_id && rng.chance(1, 2) {
        if let Some(i) = ids.pop() {
            m.insert("identifier".into(), s(&i));
        }
    }
    PV::D(m)
}

fn points(rng: &mut Rng, ids: &mut Vec<String>) -> Vec<PV> {
    let templ: &[&[&str]] = &[
        &["line", "line", "line"],
        &["move", "line", "line"],
        &["line", "offcurve", "offcurve", "curve"],
        &["move", "offcurve", "offcurve", "curve", "line"],
        &["line", "offcurve", "qcurve", "offcurve", "offcurve", "qcurve"],
        &["offcurve", "offcurve", "offcurve"],
        &["curve", "line", "offcurve", "offcurve"],
        &["offcurve", "curve", "line"],
        &["qcurve", "offcurve", "offcurve", "offcurve"],
        &["offcurve", "qcurve", "offcurve", "offcurve"],
        &["offcurve", "offcurve", "offcurve", "offcurve", "qcurve"],
        &["move"],
    ];
    let t = *rng.pick(templ);
    t.iter()
        .map(|ty| {
            let mut m = d();
            m.insert("x".into(), num(rng));
            m.insert("y".into(), num(rng));
            m.insert("type".into(), s(ty));
            m.insert("smooth".into(), PV::B(*ty != "offcurve" && *ty != "move" && rng.chance(1, 3)));
            if rng.chance(1, 5) {
                m.insert("name".into(), s(&pick_plain(rng).replace('\t', " ")));
            }
            if rng.chance(1, 6) {
                if let Some(i) = ids.pop() {
                    m.insert("identifier".into(), s(&i));
                }
            }
            PV::D(m)
        })
        .collect()
}

fn glyph(rng: &mut Rng, name: &str, feat: &str) -> PV {
    let mut m = d();
    m.insert("name".into(), s(name));
    let mut ids: Vec<String> = IDENTS.iter().map(|x| x.to_string()).collect();
    // shuffle identifiers
    for i in (1..ids.len()).rev() {
        ids.swap(i, rng.below(i + 1));
    }
    m.insert("width".into(), if rng.chance(1, 4) { PV::R(0.0) } else { PV::R(rng.range(0, 2400) as f64 / 2.0) });
    m.insert("height".into(), if rng.chance(3, 4) { PV::R(0.0) } else { PV::R(rng.range(1, 2000) as f64) });
    if rng.chance(2, 3) {
        let pool = [0x41u32, 0x61, 0xe9, 0x4e2d, 0x1F600, 0x20, 0x3c, 0x10FFFF, 0xFFFD, 0xA];
        let mut us: Vec<i64> = Vec::new();
        for _ in 0..1 + rng.below(3) {
            let u = *rng.pick(&pool) as i64;
            if !us.contains(&u) {
                us.push(u);
            }
        }
        m.insert("unicodes".into(), PV::A(us.into_iter().map(PV::I).collect()));
    }
    if rng.chance(1, 3) {
        let mut n = pick_str(rng).trim().to_string();
        if feat == "cr-note" {
            n = "line1\rline2".to_string();
        }
        if feat == "ctrl-note" {
            n = "bell\u{7}".to_string();
        }
        if feat == "crlf-note" {
            n = "line1\r\nline2".to_string();
        }
        m.insert("note".into(), s(&n));
    } else if ["cr-note", "ctrl-note", "crlf-note"].contains(&feat) {
        m.insert("note".into(), s(match feat { "cr-note" => "line1\rline2", "ctrl-note" => "bell\u{7}", _ => "line1\r\nline2" }));
    }
    if rng.chance(1, 4) {
        let mut im = d();
        im.insert("fileName".into(), s(*rng.pick(&["img.png", "a b.png", "q'&.png"])));
        transform(rng, &mut im);
        if rng.chance(1, 2) {
            im.insert("color".into(), color(rng));
        }
        m.insert("image".into(), PV::D(im));
    }
    let ng = rng.below(3);
    if ng > 0 {
        m.insert("guidelines".into(), PV::A((0..ng).map(|_| guideline(rng, &mut ids, true)).collect()));
    }
    let na = rng.below(3);
    if na > 0 {
        let mut v = Vec::new();
        for _ in 0..na {
            let mut a = d();
            a.insert("x".into(), num(rng));
            a.insert("y".into(), num(rng));
            if rng.chance(2, 3) {
                a.insert("name".into(), s(*rng.pick(&["top", "_top", "bottom", "q\"<&>'", "ogonek \u{e9}"])));
            }
            if rng.chance(1, 3) {
                a.insert("color".into(), color(rng));
            }
            if rng.chance(1, 2) {
                if let Some(i) = ids.pop() {
                    a.insert("identifier".into(), s(&i));
                }
            }
            v.push(PV::D(a));
        }
        m.insert("anchors".into(), PV::A(v));
    }
    let nc = rng.below(3);
    if nc > 0 {
        let mut v = Vec::new();
        for _ in 0..nc {
            let mut c = d();
            if rng.chance(1, 3) {
                if let Some(i) = ids.pop() {
                    c.insert("identifier".into(), s(&i));
                }
            }
            c.insert("points".into(), PV::A(points(rng, &mut ids)));
            v.push(PV::D(c));
        }
        m.insert("contours".into(), PV::A(v));
    }
    let nk = rng.below(3);
    if nk > 0 {
        let mut v = Vec::new();
        for _ in 0..nk {
            let mut c = d();
            c.insert("base".into(), s(*rng.pick(GLYPH_NAMES)));
            transform(rng, &mut c);
            if rng.chance(1, 3) {
                if let Some(i) = ids.pop() {
                    c.insert("identifier".into(), s(&i));
                }
            }
            v.push(PV::D(c));
        }
        m.insert("components".into(), PV::A(v));
    }
    // lib (strings without line breaks: the re-indentation of multi-line glyph-lib strings is a recorded C02 defect),
    // object libs for a few of the identified objects
    let mut lib = if rng.chance(1, 2) { lib_dict(rng, 0, true) } else { d() };
    if feat == "cr-glyph-lib" {
        lib.insert("cr".into(), s("a\rb"));
    }
    let mut olibs = d();
    let collect_ids = |v: Option<&PV>, out: &mut Vec<String>| {
        for x in v.map(|v| v.arr()).unwrap_or(&[]) {
            if let Some(i) = x.get("identifier") {
                out.push(i.str().to_string());
            }
            for p in x.get("points").map(|p| p.arr()).unwrap_or(&[]) {
                if let Some(i) = p.get("identifier") {
                    out.push(i.str().to_string());
                }
            }
        }
    };
    let mut used = Vec::new();
    collect_ids(m.get("guidelines"), &mut used);
    collect_ids(m.get("anchors"), &mut used);
    collect_ids(m.get("contours"), &mut used);
    collect_ids(m.get("components"), &mut used);
    for i in used {
        if rng.chance(1, 3) {
            let mut l = lib_dict(rng, 1, true);
            l.insert("o".into(), PV::I(1));
            olibs.insert(i, PV::D(l));
        }
    }
    if !olibs.is_empty() {
        lib.insert(OBJECT_LIBS.into(), PV::D(olibs));
    }
    if feat == "cdata-glyph-lib" {
        lib = d();
        lib.insert("k".into(), s("glyph lib string"));
    }
    if !lib.is_empty() {
        m.insert("lib".into(), PV::D(lib));
    }
    // make the element a rare spelling is about exist
    let one = |k: &str, v: PV, m: &mut BTreeMap<String, PV>| {
        if !m.contains_key(k) {
            m.insert(k.into(), PV::A(vec![v]));
        }
    };
    match feat {
        "explicit-close-advance" => {
            m.insert("width".into(), PV::R(500.0));
        }
        "explicit-close-unicode" => one("unicodes", PV::I(0x41), &mut m),
        "explicit-close-anchor" => {
            let mut a = d();
            a.insert("x".into(), PV::R(1.0));
            a.insert("y".into(), PV::R(2.0));
            one("anchors", PV::D(a), &mut m);
        }
        "explicit-close-guideline" => {
            let mut a = d();
            a.insert("x".into(), PV::R(10.0));
            one("guidelines", PV::D(a), &mut m);
        }
        "explicit-close-image" | "tab-image-filename" => {
            let mut im = d();
            im.insert("fileName".into(), s(if feat == "tab-image-filename" { "a\tb.png" } else { "img.png" }));
            for (k, v) in [("xScale", 1.0), ("xyScale", 0.0), ("yxScale", 0.0), ("yScale", 1.0), ("xOffset", 0.0), ("yOffset", 0.0)] {
                im.insert(k.into(), PV::R(v));
            }
            m.insert("image".into(), PV::D(im));
        }
        "explicit-close-point" => {
            let mut c = d();
            let mut ids2 = Vec::new();
            c.insert("points".into(), PV::A(points(rng, &mut ids2)));
            one("contours", PV::D(c), &mut m);
        }
        "explicit-close-component" => {
            let mut c = d();
            c.insert("base".into(), s("a"));
            for (k, v) in [("xScale", 1.0), ("xyScale", 0.0), ("yxScale", 0.0), ("yScale", 1.0), ("xOffset", 0.0), ("yOffset", 0.0)] {
                c.insert(k.into(), PV::R(v));
            }
            one("components", PV::D(c), &mut m);
        }
        "cdata-note" => {
            m.insert("note".into(), s("a note"));
        }
        "empty-note" => {
            m.remove("note");
        }
        "self-closed-glyph" => {
            let mut bare = d();
            bare.insert("name".into(), s(name));
            bare.insert("width".into(), PV::R(0.0));
            bare.insert("height".into(), PV::R(0.0));
            return PV::D(bare);
        }
        _ => {}
    }
    PV::D(m)
}

fn fontinfo(rng: &mut Rng, p_num: u32, p_den: u32) -> BTreeMap<String, PV> {
    let mut m = d();
    let want = |rng: &mut Rng| rng.chance(p_num, p_den);
    for k in STR_KEYS {
        if want(rng) {
            let v = if *k == "openTypeHeadCreated" {
                format!("20{:02}/{:02}/{:02} {:02}:{:02}:{:02}", rng.below(100), 1 + rng.below(12), 1 + rng.below(28), rng.below(24), rng.below(60), rng.below(60))
            } else {
                pick_str(rng)
            };
            m.insert(k.to_string(), PV::S(v));
        }
    }
    for k in INT_KEYS {
        if want(rng) {
            m.insert(k.to_string(), PV::I(*rng.pick(&[0, 1, -1, 750, -250, 2147483647, -2147483648, 12345, -4096])));
        }
    }
    for k in UINT_KEYS {
        if want(rng) {
            m.insert(k.to_string(), PV::I(*rng.pick(&[0, 1, 400, 700, 9, 65535, 4294967295, 1000])));
        }
    }
    for k in NUM_KEYS {
        if want(rng) {
            m.insert(k.to_string(), num(rng));
        }
    }
    for k in BOOL_KEYS {
        if want(rng) {
            m.insert(k.to_string(), PV::B(rng.chance(1, 2)));
        }
    }
    for k in BITS_KEYS {
        if want(rng) {
            let pool: &[i64] = if *k == "openTypeOS2Selection" { &[1, 2, 3, 4, 7, 8, 9] } else { &[0, 1, 2, 3, 5, 8, 11, 15] };
            let v: Vec<PV> = pool.iter().filter(|_| rng.chance(1, 3)).map(|b| PV::I(*b)).collect();
            m.insert(k.to_string(), PV::A(v));
        }
    }
    for k in NUMLIST_KEYS {
        if want(rng) {
            let n = 2 * rng.below(4);
            let mut v: Vec<f64> = (0..n).map(|_| num(rng).f()).collect();
            v.sort_by(|a, b| a.partial_cmp(b).unwrap());
            m.insert(k.to_string(), PV::A(v.into_iter().map(PV::R).collect()));
        }
    }
    if want(rng) {
        m.insert("postscriptBlueScale".into(), PV::R(*rng.pick(&[0.039625, 0.25, 0.0375, 1.5])));
    }
    if want(rng) {
        m.insert("unitsPerEm".into(), PV::R(*rng.pick(&[1000.0, 2048.0, 1.0, 16384.0, 1000.5, 0.0])));
    }
    if want(rng) {
        m.insert("styleMapStyleName".into(), s(*rng.pick(&["regular", "italic", "bold", "bold italic"])));
    }
    if want(rng) {
        m.insert("openTypeOS2WidthClass".into(), PV::I(rng.range(1, 9)));
    }
    if want(rng) {
        m.insert("postscriptWindowsCharacterSet".into(), PV::I(rng.range(1, 20)));
    }
    if want(rng) {
        m.insert("openTypeOS2FamilyClass".into(), PV::A(vec![PV::I(rng.range(0, 14)), PV::I(rng.range(0, 15))]));
    }
    if want(rng) {
        m.insert("openTypeOS2Panose".into(), PV::A((0..10).map(|i| PV::I(rng.range(0, 14) + if i == 9 { 1 } else { 0 })).collect()));
    }
    if want(rng) {
        let mut ppem = 0;
        let v: Vec<PV> = (0..rng.below(3))
            .map(|_| {
                ppem += rng.range(1, 40);
                let mut r = d();
                r.insert("rangeMaxPPEM".into(), PV::I(ppem));
                r.insert("rangeGaspBehavior".into(), PV::A([0i64, 1, 2, 3].iter().filter(|_| rng.chance(1, 2)).map(|b| PV::I(*b)).collect()));
                PV::D(r)
            })
            .collect();
        m.insert("openTypeGaspRangeRecords".into(), PV::A(v));
    }
    if want(rng) {
        let v: Vec<PV> = (0..rng.below(3))
            .map(|_| {
                let mut r = d();
                r.insert("nameID".into(), PV::I(rng.range(0, 300)));
                r.insert("platformID".into(), PV::I(rng.range(0, 4)));
                r.insert("encodingID".into(), PV::I(rng.range(5, 12)));
                r.insert("languageID".into(), PV::I(rng.range(1000, 1100)));
                r.insert("string".into(), PV::S(pick_str(rng)));
                PV::D(r)
            })
            .collect();
        m.insert("openTypeNameRecords".into(), PV::A(v));
    }
    if want(rng) {
        let mut ids = vec!["fg1".to_string(), "fg 2".to_string(), "fg<3>".to_string()];
        let v: Vec<PV> = (0..rng.below(3)).map(|_| guideline(rng, &mut ids, true)).collect();
        m.insert("guidelines".into(), PV::A(v));
    }
    let text_recs = |rng: &mut Rng| -> PV {
        PV::A((0..1 + rng.below(2))
            .map(|_| {
                let mut r = d();
                r.insert("text".into(), PV::S(pick_str(rng)));
                if rng.chance(1, 2) {
                    r.insert("language".into(), s(*rng.pick(&["en", "fr", "zh-Hant"])));
                }
                if rng.chance(1, 2) {
                    r.insert("dir".into(), s(*rng.pick(&["ltr", "rtl"])));
                }
                if rng.chance(1, 2) {
                    r.insert("class".into(), PV::S(pick_str(rng)));
                }
                PV::D(r)
            })
            .collect())
    };
    if want(rng) {
        let mut r = d();
        r.insert("id".into(), PV::S(pick_str(rng)));
        m.insert("woffMetadataUniqueID".into(), PV::D(r));
    }
    if want(rng) {
        let mut r = d();
        r.insert("name".into(), PV::S(pick_str(rng)));
        r.insert("url".into(), s("http://example.com/?a=1&b=2"));
        if rng.chance(1, 2) {
            r.insert("dir".into(), s(*rng.pick(&["ltr", "rtl"])));
        }
        if rng.chance(1, 2) {
            r.insert("class".into(), PV::S(pick_str(rng)));
        }
        m.insert("woffMetadataVendor".into(), PV::D(r));
    }
    if want(rng) {
        let v: Vec<PV> = (0..1 + rng.below(2))
            .map(|_| {
                let mut r = d();
                r.insert("name".into(), PV::S(pick_str(rng)));
                if rng.chance(1, 2) {
                    r.insert("url".into(), s("http://x.example/"));
                }
                if rng.chance(1, 2) {
                    r.insert("role".into(), PV::S(pick_str(rng)));
                }
                if rng.chance(1, 2) {
                    r.insert("dir".into(), s(*rng.pick(&["ltr", "rtl"])));
                }
                if rng.chance(1, 2) {
                    r.insert("class".into(), PV::S(pick_str(rng)));
                }
                PV::D(r)
            })
            .collect();
        let mut r = d();
        r.insert("credits".into(), PV::A(v));
        m.insert("woffMetadataCredits".into(), PV::D(r));
    }
    for k in ["woffMetadataCopyright", "woffMetadataTrademark"] {
        if want(rng) {
            let mut r = d();
            r.insert("text".into(), text_recs(rng));
            m.insert(k.into(), PV::D(r));
        }
    }
    if want(rng) {
        let mut r = d();
        if rng.chance(1, 2) {
            r.insert("url".into(), s("http://d.example/"));
        }
        r.insert("text".into(), text_recs(rng));
        m.insert("woffMetadataDescription".into(), PV::D(r));
    }
    if want(rng) {
        let mut r = d();
        if rng.chance(1, 2) {
            r.insert("url".into(), s("http://l.example/"));
        }
        if rng.chance(1, 2) {
            r.insert("id".into(), PV::S(pick_str(rng)));
        }
        r.insert("text".into(), text_recs(rng));
        m.insert("woffMetadataLicense".into(), PV::D(r));
    }
    if want(rng) {
        let mut r = d();
        r.insert("name".into(), PV::S(pick_str(rng)));
        if rng.chance(1, 2) {
            r.insert("dir".into(), s(*rng.pick(&["ltr", "rtl"])));
        }
        if rng.chance(1, 2) {
            r.insert("class".into(), PV::S(pick_str(rng)));
        }
        m.insert("woffMetadataLicensee".into(), PV::D(r));
    }
    m
}

const PNG: &[u8] = &[0x89, b'P', b'N', b'G', 0x0d, 0x0a, 0x1a, 0x0a, 1, 2, 3];

/// `default_first`: norad's own fonts always hold the default layer first (n2i); an independent writer may list it anywhere
fn gen_desc(rng: &mut Rng, default_first: bool, feat: &str, all_info: bool) -> PV {
    let mut m = d();
    let fi = if all_info { fontinfo(rng, 1, 1) } else if rng.chance(1, 8) { d() } else { fontinfo(rng, 1, 7) };
    let mut lib = if rng.chance(1, 2) { lib_dict(rng, 0, false) } else { d() };
    if feat == "cr-font-lib" {
        lib.insert("cr".into(), s("a\rb"));
    }
    if feat == "ctrl-font-lib" {
        lib.insert("ctrl".into(), s("bell\u{7}"));
    }
    if feat == "cdata-font-lib" {
        lib = d();
        lib.insert("k".into(), s("font lib string"));
    }
    let mut fi = fi;
    if feat == "cdata-fontinfo" {
        // exactly one string, whose loss is not an error: the outcome is then the same in every run
        fi = d();
        fi.insert("familyName".into(), s("Some Family"));
        fi.insert("versionMajor".into(), PV::I(1));
    }
    // object libs of font-level guidelines live in lib.plist
    let mut olibs = d();
    for g in fi.get("guidelines").map(|v| v.arr()).unwrap_or(&[]) {
        if let Some(i) = g.get("identifier") {
            if rng.chance(1, 2) {
                let mut l = lib_dict(rng, 1, false);
                l.insert("o".into(), PV::I(2));
                olibs.insert(i.str().to_string(), PV::D(l));
            }
        }
    }
    if !olibs.is_empty() {
        lib.insert(OBJECT_LIBS.into(), PV::D(olibs));
    }
    if !fi.is_empty() {
        m.insert("fontinfo".into(), PV::D(fi));
    }
    if !lib.is_empty() {
        m.insert("lib".into(), PV::D(lib));
    }
    if rng.chance(1, 3) {
        let mut g = d();
        g.insert("public.kern1.A".into(), PV::A(vec![s("A"), s("a.alt")]));
        if rng.chance(1, 2) {
            g.insert("public.kern2.q".into(), PV::A(vec![s("q\"<&>'"), s("\u{e9}")]));
        }
        if rng.chance(1, 2) {
            g.insert("my group".into(), PV::A((0..rng.below(4)).map(|_| s(*rng.pick(GLYPH_NAMES))).collect()));
        }
        m.insert("groups".into(), PV::D(g));
    }
    if rng.chance(1, 3) {
        let mut k = d();
        for _ in 0..1 + rng.below(3) {
            let a = *rng.pick(&["A", "public.kern1.A", "x y", "\u{e9}"]);
            let mut row = match k.remove(a) {
                Some(PV::D(r)) => r,
                _ => d(),
            };
            for _ in 0..1 + rng.below(2) {
                row.insert(rng.pick(&["a", "public.kern2.q", "q\"<&>'", "b"]).to_string(), nonzero(rng));
            }
            k.insert(a.to_string(), PV::D(row));
        }
        m.insert("kerning".into(), PV::D(k));
    }
    if rng.chance(1, 3) {
        m.insert("features".into(), s(*rng.pick(&["feature kern {\n  pos a b -10;\n} kern;\n", "# caf\u{e9} <&>\n", "languagesystem DFLT dflt;"])));
    }
    // layers
    let extra = rng.below(4);
    let lnames = ["background", "Layer 1", "q<&>", "b\u{e9}ta", "public.background", "A", "a"];
    let mut layers: Vec<(String, String)> = Vec::new();
    for i in 0..extra {
        let n = rng.pick(&lnames).to_string();
        if layers.iter().any(|(x, _)| *x == n) {
            continue;
        }
        layers.push((n, format!("glyphs.L{}_", i)));
    }
    let dn = if rng.chance(1, 3) { "foreground" } else { "public.default" };
    let pos = if default_first { 0 } else { rng.below(layers.len() + 1) };
    layers.insert(pos, (dn.to_string(), "glyphs".to_string()));
    let mut lv = Vec::new();
    let mut first_glyph = true;
    for (n, dir) in layers {
        let mut l = d();
        l.insert("name".into(), s(&n));
        l.insert("dir".into(), s(&dir));
        if rng.chance(1, 3) || feat == "cdata-layer-color" {
            l.insert("color".into(), color(rng));
        }
        if rng.chance(1, 4) {
            let ld = lib_dict(rng, 0, false);
            if !ld.is_empty() {
                l.insert("lib".into(), PV::D(ld));
            }
        }
        if feat == "cdata-layer-lib" {
            let mut ld = d();
            ld.insert("k".into(), s("layer lib string"));
            l.insert("lib".into(), PV::D(ld));
        }
        let mut names: Vec<&str> = Vec::new();
        let ng = if dir == "glyphs" { 1 + rng.below(4) } else { rng.below(3) };
        for _ in 0..ng {
            let g = *rng.pick(GLYPH_NAMES);
            if !names.contains(&g) {
                names.push(g);
            }
        }
        if rng.chance(1, 6) {
            let (a, b) = *rng.pick(CLASH_PAIRS);
            for n in [a, b] {
                if !names.contains(&n) {
                    names.push(n);
                }
            }
        }
        names.sort();
        let gl: Vec<PV> = names
            .iter()
            .map(|g| {
                let f = if first_glyph { feat } else { "" };
                first_glyph = false;
                glyph(rng, g, f)
            })
            .collect();
        l.insert("glyphs".into(), PV::A(gl));
        lv.push(PV::D(l));
    }
    m.insert("layers".into(), PV::A(lv));
    if rng.chance(1, 5) {
        let mut dd = d();
        dd.insert("a.txt".into(), PV::Data(b"hello\r\n".to_vec()));
        if rng.chance(1, 2) {
            dd.insert("sub/dir/b.bin".into(), PV::Data(vec![0, 255, 10, 13]));
        }
        m.insert("data".into(), PV::D(dd));
    }
    if rng.chance(1, 5) {
        let mut dd = d();
        dd.insert("img.png".into(), PV::Data(PNG.to_vec()));
        m.insert("images".into(), PV::D(dd));
    }
    PV::D(m)
}

// ------------------------------------------------------------------ python batches

fn tool_path() -> PathBuf {
    if let Ok(p) = std::env::var("VERIF_TOOLS") {
        return PathBuf::from(p).join("indep_ufo.py");
    }
    let exe = std::env::current_exe().unwrap();
    for a in exe.ancestors() {
        let c = a.join("tools").join("indep_ufo.py");
        if c.exists() {
            return c;
        }
    }
    PathBuf::from("/verif/tools/indep_ufo.py")
}

fn python(args: &[&str]) -> Vec<String> {
    let out = std::process::Command::new("python3").arg(tool_path()).args(args).output().expect("python3");
    if !out.status.success() {
        eprintln!("indep_ufo.py failed: {}", String::from_utf8_lossy(&out.stderr));
        std::process::exit(3);
    }
    String::from_utf8(out.stdout).unwrap().lines().map(|l| l.to_string()).collect()
}

fn variant(dbg: &str) -> String {
    dbg.chars().take_while(|c| c.is_alphanumeric()).collect()
}

/// an older, richer UFO (written by hand, not by norad) that already sits at the target of a save
fn write_old_ufo(root: &Path) {
    let pl = |body: &str| format!("<?xml version=\"1.0\" encoding=\"UTF-8\"?>\n<plist version=\"1.0\">\n{}\n</plist>\n", body);
    let put = |rel: &str, data: &[u8]| {
        let p = root.join(rel);
        std::fs::create_dir_all(p.parent().unwrap()).unwrap();
        std::fs::write(p, data).unwrap();
    };
    put("metainfo.plist", pl("<dict><key>creator</key><string>old.tool</string><key>formatVersion</key><integer>3</integer></dict>").as_bytes());
    put("fontinfo.plist", pl("<dict><key>familyName</key><string>Old Family</string><key>unitsPerEm</key><integer>999</integer></dict>").as_bytes());
    put("lib.plist", pl("<dict><key>old.key</key><string>old value</string></dict>").as_bytes());
    put("groups.plist", pl("<dict><key>oldgroup</key><array><string>old</string></array></dict>").as_bytes());
    put("kerning.plist", pl("<dict><key>old</key><dict><key>old</key><integer>-99</integer></dict></dict>").as_bytes());
    put("features.fea", b"# old features\n");
    put("layercontents.plist", pl("<array><array><string>oldfore</string><string>glyphs</string></array><array><string>oldlayer</string><string>glyphs.oldlayer</string></array></array>").as_bytes());
    let glif = b"<?xml version=\"1.0\" encoding=\"UTF-8\"?>\n<glyph name=\"old\" format=\"2\"><advance width=\"99\"/></glyph>\n";
    for d in ["glyphs", "glyphs.oldlayer"] {
        put(&format!("{}/contents.plist", d), pl("<dict><key>old</key><string>old.glif</string></dict>").as_bytes());
        put(&format!("{}/old.glif", d), glif);
        put(&format!("{}/layerinfo.plist", d), pl("<dict><key>color</key><string>1,0,0,1</string></dict>").as_bytes());
    }
    put("data/old/old.txt", b"old data");
    put("images/old.png", PNG);
    put("notes.txt", b"a foreign file");
}

fn write_junk(root: &Path) {
    std::fs::create_dir_all(root.join("sub/dir")).unwrap();
    std::fs::write(root.join("junk.bin"), [0u8, 1, 2]).unwrap();
    std::fs::write(root.join("kerning.plist"), b"not a plist at all").unwrap();
    std::fs::write(root.join("sub/dir/x.txt"), b"x").unwrap();
}

/// n2i: build, save, (python reads) -> observation per case
fn run_n2i(cases: &[(String, String, PV)], scratch: &Path) -> Vec<String> {
    let dir = scratch.join("n2i");
    rm_rf(&dir);
    std::fs::create_dir_all(&dir).unwrap();
    let mut status = Vec::new();
    for (i, (_, pre, desc)) in cases.iter().enumerate() {
        let target = dir.join(format!("{}.ufo", i));
        match pre.as_str() {
            "rich" => write_old_ufo(&target),
            "junk" => write_junk(&target),
            _ => {}
        }
        let r = guarded(|| {
            let font = font_of(desc);
            font.save(&target)
        });
        status.push(match r {
            Ok(Ok(())) => None,
            Ok(Err(e)) => {
                rm_rf(&target);
                Some(format!("save-err:{}", variant(&format!("{:?}", e))))
            }
            Err(msg) => {
                rm_rf(&target);
                Some(format!("save-panic:{}", hexs(&msg.chars().take(60).collect::<String>())))
            }
        });
    }
    let lines = python(&["read", dir.to_str().unwrap(), &cases.len().to_string()]);
    if std::env::var("VERIF_KEEP").is_err() {
        rm_rf(&dir);
    }
    status.into_iter().zip(lines).map(|(st, l)| st.unwrap_or(l)).collect()
}

fn load_with_request(src: &Path, req: &str, desc: &PV) -> Result<Font, norad::error::FontLoadError> {
    use norad::DataRequest;
    match req {
        "default-only" => Font::load_requested_data(src, DataRequest::none().default_layer(true)),
        "all-default" => Font::load_requested_data(src, DataRequest::all().default_layer(true)),
        "named" => {
            // the default layer, asked for by the name the independent writer gave it
            let want: String = desc.get("layers").unwrap().arr().iter()
                .find(|l| l.get("dir").map(|d| d.str() == "glyphs").unwrap_or(false))
                .map(|l| l.get("name").unwrap().str().to_string())
                .unwrap_or_default();
            Font::load_requested_data(src, DataRequest::all().filter_layers(move |n, _| n == want))
        }
        _ => Font::load(src),
    }
}

/// i2n: (python writes), load, dump -> observation per case
fn run_i2n(cases: &[(u64, String, String, PV)], scratch: &Path) -> Vec<String> {
    let dir = scratch.join("i2n");
    rm_rf(&dir);
    std::fs::create_dir_all(&dir).unwrap();
    let batch = dir.join("batch.txt");
    let mut text = String::new();
    for (seed, want, _, desc) in cases {
        text.push_str(&format!("{} {} {}\n", seed, want, desc.encode()));
    }
    std::fs::write(&batch, text).unwrap();
    let applied = python(&["write", batch.to_str().unwrap(), dir.to_str().unwrap()]);
    let mut out = Vec::new();
    for (i, ap) in applied.iter().enumerate() {
        let src = dir.join(format!("{}.ufo", i));
        let r = guarded(|| load_with_request(&src, &cases[i].2, &cases[i].3));
        let obs = match r {
            Ok(Ok(font)) => format!("ok {}", font_pv(&font).encode()),
            Ok(Err(e)) => {
                if std::env::var("VERIF_KEEP").is_ok() {
                    eprintln!("case {}: {:?}", i, e);
                }
                format!("err:{}", variant(&format!("{:?}", e)))
            }
            Err(_) => "panic".to_string(),
        };
        out.push(format!("{} {}", ap, obs));
    }
    if std::env::var("VERIF_KEEP").is_err() {
        rm_rf(&dir);
    }
    out
}

// ------------------------------------------------------------------ load, edit, save

/// the file-name stem the UFO convention gives a name (own transcription, only used to BUILD clashing inputs):
/// illegal characters and a leading period become `_`, an upper-case letter is followed by `_`
fn conv_stem(n: &str) -> String {
    let mut out = String::new();
    for (i, c) in n.chars().enumerate() {
        if i == 0 && c == '.' {
            out.push('_');
        } else if "\"*+/:<>?[\\]|".contains(c) || (c as u32) < 32 || c as u32 == 127 {
            out.push('_');
        } else if c != c.to_lowercase().next().unwrap_or(c) {
            out.push(c);
            out.push('_');
        } else {
            out.push(c);
        }
    }
    out
}

/// names that map to the same file name as `n`, exactly or up to case
fn clash_variants(n: &str) -> Vec<String> {
    let mut v = Vec::new();
    let stem = conv_stem(n);
    v.push(stem.to_lowercase()); // same file name up to case (T_H -> t__h_)
    if n.contains('_') {
        v.push(n.replacen('_', "+", 1));
        v.push(n.replacen('_', "*", 1));
        v.push(n.replacen('_', ":", 1));
    }
    if let Some(rest) = n.strip_prefix('.') {
        v.push(format!("_{}", rest));
    }
    if let Some(rest) = n.strip_prefix('_') {
        v.push(format!(".{}", rest));
    }
    for bad in ["*", "?", "|"] {
        if n.contains(bad) {
            v.push(n.replace(bad, "+"));
        }
    }
    v.push(format!("{}?", n.trim_end_matches(['*', '?', '+'])));
    v.retain(|x| x != n && Name::new(x).is_ok());
    v.dedup();
    v
}

/// many layers (glyph-less except the default one), the default layer at a chosen position of layercontents.plist;
/// `nglyphs` bare glyphs in the default layer
fn layers_desc(n_total: usize, pos: usize, nglyphs: usize, custom_default: bool) -> PV {
    let mut layers: Vec<PV> = Vec::new();
    for i in 0..n_total.saturating_sub(1) {
        let mut l = d();
        l.insert("name".into(), PV::S(format!("L{:02}", i)));
        l.insert("dir".into(), PV::S(format!("glyphs.L{:02}_", i)));
        l.insert("glyphs".into(), PV::A(Vec::new()));
        layers.push(PV::D(l));
    }
    let mut dl = d();
    dl.insert("name".into(), s(if custom_default { "foreground" } else { "public.default" }));
    dl.insert("dir".into(), s("glyphs"));
    let glyphs: Vec<PV> = (0..nglyphs)
        .map(|i| {
            let mut g = d();
            g.insert("name".into(), PV::S(format!("g{:02}", i)));
            g.insert("width".into(), PV::R(1.0 + i as f64));
            g.insert("height".into(), PV::R(0.0));
            PV::D(g)
        })
        .collect();
    dl.insert("glyphs".into(), PV::A(glyphs));
    layers.insert(pos.min(layers.len()), PV::D(dl));
    let mut m = d();
    m.insert("layers".into(), PV::A(layers));
    PV::D(m)
}

/// layer counts around the thresholds of the standard sort / rotate implementations, each with the default layer
/// first / second / in the middle / last (quick: two of the four positions, one of them never the first)
fn layer_order_cases(rng: &mut Rng, thorough: bool) -> Vec<PV> {
    let mut out = Vec::new();
    for n in [1usize, 2, 3, 6, 21, 22, 23, 33, 34, 35, 41, 65] {
        let mut positions = vec![0usize, 1, n / 2, n - 1];
        positions.dedup();
        positions.retain(|p| *p < n);
        if !thorough && positions.len() > 2 {
            let nonfirst: Vec<usize> = positions.iter().copied().filter(|p| *p != 0).collect();
            let a = *rng.pick(&nonfirst);
            let b = *rng.pick(&positions);
            positions = if a == b { vec![a] } else { vec![a, b] };
        }
        for p in positions {
            out.push(layers_desc(n, p, 1, rng.chance(1, 2)));
        }
    }
    // many glyphs in one layer (contents.plist is a dictionary: no order is specified there, the set must be complete)
    for g in if thorough { vec![20usize, 21, 22, 33, 64, 65] } else { vec![21usize, 64] } {
        out.push(layers_desc(2, 1, g, false));
    }
    out
}

/// closed contours an independent writer may start ANYWHERE: every rotation of the cyclic point list of
/// quadratic contours (one `qcurve` with 0..6 off-curves; `line` + 0..6 off-curves + `qcurve`), contours of off-curve
/// points only, cubic contours with 0 / 1 / 2 off-curves (so that the seam splits the run in every way).
/// One font per family, one glyph per rotation.
fn contour_rotation_cases() -> Vec<PV> {
    let mut fonts: Vec<(String, Vec<Vec<&'static str>>)> = Vec::new();
    for k in 0..=6usize {
        let mut a = vec!["qcurve"];
        a.extend(std::iter::repeat("offcurve").take(k));
        let mut b = vec!["line"];
        b.extend(std::iter::repeat("offcurve").take(k));
        b.push("qcurve");
        fonts.push((format!("q{}", k), vec![a, b]));
    }
    fonts.push(("off".to_string(), (1..=5).map(|n| vec!["offcurve"; n]).collect()));
    fonts.push(("cubic".to_string(), vec![vec!["line", "curve"], vec!["line", "offcurve", "curve"], vec!["line", "offcurve", "offcurve", "curve"],
        vec!["curve", "offcurve", "offcurve", "curve", "offcurve", "curve"]]));
    let mut out = Vec::new();
    for (fam, bases) in fonts {
        let mut glyphs = Vec::new();
        for (bi, base) in bases.iter().enumerate() {
            let rots = if base.iter().all(|t| *t == "offcurve") { 1 } else { base.len() };
            for r in 0..rots {
                let mut g = d();
                g.insert("name".into(), PV::S(format!("{}b{}r{}", fam, bi, r)));
                g.insert("width".into(), PV::R(500.0));
                g.insert("height".into(), PV::R(0.0));
                let pts: Vec<PV> = (0..base.len())
                    .map(|i| {
                        let j = (i + r) % base.len();
                        let mut m = d();
                        m.insert("x".into(), PV::R(10.0 * j as f64));
                        m.insert("y".into(), PV::R(((j * j) % 7) as f64 * 5.0));
                        m.insert("type".into(), s(base[j]));
                        m.insert("smooth".into(), PV::B(false));
                        PV::D(m)
                    })
                    .collect();
                let mut c = d();
                c.insert("points".into(), PV::A(pts));
                g.insert("contours".into(), PV::A(vec![PV::D(c)]));
                glyphs.push(PV::D(g));
            }
        }
        let mut l = d();
        l.insert("name".into(), s("public.default"));
        l.insert("dir".into(), s("glyphs"));
        l.insert("glyphs".into(), PV::A(glyphs));
        let mut m = d();
        m.insert("layers".into(), PV::A(vec![PV::D(l)]));
        out.push(PV::D(m));
    }
    out
}

/// the independent writer may name the glif files by the UFO convention (capitals included) instead of `g<i>_.glif`
fn with_conv_files(desc: &PV) -> PV {
    let mut top = desc.dict().clone();
    let layers: Vec<PV> = desc.get("layers").unwrap().arr().iter()
        .map(|l| {
            let mut lm = l.dict().clone();
            let mut used: Vec<String> = Vec::new();
            let glyphs: Vec<PV> = l.get("glyphs").map(|g| g.arr().to_vec()).unwrap_or_default().into_iter()
                .map(|g| {
                    let mut gm = g.dict().clone();
                    let f = format!("{}.glif", conv_stem(gm["name"].str()));
                    if !used.contains(&f.to_lowercase()) && f.len() < 200 {
                        used.push(f.to_lowercase());
                        gm.insert("file".into(), PV::S(f));
                    }
                    PV::D(gm)
                })
                .collect();
            lm.insert("glyphs".into(), PV::A(glyphs));
            PV::D(lm)
        })
        .collect();
    top.insert("layers".into(), PV::A(layers));
    PV::D(top)
}

fn gen_les_ops(rng: &mut Rng, desc: &PV) -> Vec<String> {
    // layers in the order a loaded font holds them: default first, the others in file order
    let layers = desc.get("layers").unwrap().arr();
    let mut order: Vec<&PV> = layers.iter().filter(|l| l.get("dir").unwrap().str() == "glyphs").collect();
    order.extend(layers.iter().filter(|l| l.get("dir").unwrap().str() != "glyphs"));
    let mut ops = Vec::new();
    let n = 1 + rng.below(5);
    for k in 0..n {
        let li = rng.below(order.len());
        let gnames: Vec<String> =
            order[li].get("glyphs").map(|g| g.arr().iter().map(|x| x.get("name").unwrap().str().to_string()).collect()).unwrap_or_default();
        let lnames: Vec<String> = order.iter().map(|l| l.get("name").unwrap().str().to_string()).collect();
        match rng.below(10) {
            0..=4 if !gnames.is_empty() => {
                let base = rng.pick(&gnames).clone();
                let vs = clash_variants(&base);
                if !vs.is_empty() {
                    ops.push(format!("ig.{}.{}.{}", li, hexs(rng.pick(&vs[..]).as_str()), k));
                }
            }
            5..=6 if gnames.len() >= 2 => {
                let old = rng.pick(&gnames).clone();
                let onto = rng.pick(&gnames).clone();
                let vs = clash_variants(&onto);
                if !vs.is_empty() && old != onto {
                    ops.push(format!("mg.{}.{}.{}", li, hexs(&old), hexs(rng.pick(&vs[..]).as_str())));
                }
            }
            7 if !gnames.is_empty() => ops.push(format!("rg.{}.{}", li, hexs(rng.pick(&gnames[..]).as_str()))),
            8 => {
                let base = rng.pick(&lnames).clone();
                let vs = clash_variants(&base);
                if !vs.is_empty() {
                    ops.push(format!("nl.{}", hexs(rng.pick(&vs[..]).as_str())));
                }
            }
            _ => {
                if lnames.len() >= 2 {
                    let old = lnames[1 + rng.below(lnames.len() - 1)].clone();
                    let vs = clash_variants(rng.pick(&lnames[..]).as_str());
                    if rng.chance(1, 3) {
                        ops.push(format!("rl.{}", hexs(&old)));
                    } else if !vs.is_empty() {
                        ops.push(format!("ml.{}.{}", hexs(&old), hexs(rng.pick(&vs[..]).as_str())));
                    }
                } else if !gnames.is_empty() {
                    let base = rng.pick(&gnames).clone();
                    let vs = clash_variants(&base);
                    if !vs.is_empty() {
                        ops.push(format!("ig.{}.{}.{}", li, hexs(rng.pick(&vs[..]).as_str()), k));
                    }
                }
            }
        }
    }
    ops
}

fn les_apply(font: &mut Font, op: &str) {
    let f: Vec<&str> = op.split('.').collect();
    let us = |h: &str| String::from_utf8(unhex(h)).unwrap();
    let _ = guarded(|| match f[0] {
        "ig" | "mg" | "rg" => {
            let li: usize = f[1].parse().unwrap();
            if let Some(layer) = font.layers.iter_mut().nth(li) {
                match f[0] {
                    "ig" => {
                        let n = us(f[2]);
                        if Name::new(&n).is_ok() {
                            let mut g = Glyph::new(&n);
                            g.width = 1000.0 + f[3].parse::<f64>().unwrap();
                            layer.insert_glyph(g);
                        }
                    }
                    "mg" => {
                        let _ = layer.rename_glyph(&us(f[2]), &us(f[3]), false);
                    }
                    _ => {
                        layer.remove_glyph(&us(f[2]));
                    }
                }
            }
        }
        "nl" => {
            let _ = font.layers.new_layer(&us(f[1]));
        }
        "ml" => {
            let _ = font.layers.rename_layer(&us(f[1]), &us(f[2]), false);
        }
        "rl" => {
            font.layers.remove(&us(f[1]));
        }
        _ => {}
    });
}

/// les: render (norad or python), load, edit, save, (python reads) -> observation per case
fn run_les(cases: &[(String, u64, PV, Vec<String>)], scratch: &Path) -> Vec<String> {
    let src = scratch.join("les-src");
    let dst = scratch.join("les-dst");
    rm_rf(&src);
    rm_rf(&dst);
    std::fs::create_dir_all(&src).unwrap();
    std::fs::create_dir_all(&dst).unwrap();
    // sources: the independent writer writes every case (cheap), norad overwrites the `n` ones
    let batch = src.join("batch.txt");
    let mut text = String::new();
    for (_, seed, desc, _) in cases {
        text.push_str(&format!("{} - {}\n", seed, desc.encode()));
    }
    std::fs::write(&batch, text).unwrap();
    python(&["write", batch.to_str().unwrap(), src.to_str().unwrap()]);
    let mut status: Vec<Result<String, String>> = Vec::new();
    for (i, (kind, _, desc, ops)) in cases.iter().enumerate() {
        let s = src.join(format!("{}.ufo", i));
        if kind == "n" {
            rm_rf(&s);
            let r = guarded(|| font_of(desc).save(&s));
            if !matches!(r, Ok(Ok(()))) {
                status.push(Err("src-save-err".to_string()));
                continue;
            }
        }
        if kind == "r" {
            // written by norad (default layer first), then layercontents.plist re-ordered BY HAND into the order of the description
            rm_rf(&s);
            let file_order: Vec<String> = desc.get("layers").unwrap().arr().iter().map(|l| l.get("name").unwrap().str().to_string()).collect();
            let mut first = desc.dict().clone();
            let ls = desc.get("layers").unwrap().arr();
            let mut reordered: Vec<PV> = ls.iter().filter(|l| l.get("dir").unwrap().str() == "glyphs").cloned().collect();
            reordered.extend(ls.iter().filter(|l| l.get("dir").unwrap().str() != "glyphs").cloned());
            first.insert("layers".into(), PV::A(reordered));
            let r = guarded(|| -> Result<(), String> {
                let font = font_of(&PV::D(first));
                font.save(&s).map_err(|e| format!("{:?}", e))?;
                let esc = |x: &str| x.replace('&', "&amp;").replace('<', "&lt;").replace('>', "&gt;");
                let mut lc = String::from("<?xml version=\"1.0\" encoding=\"UTF-8\"?>\n<plist version=\"1.0\">\n<array>\n");
                for n in &file_order {
                    let dir = font.layers.get(n).ok_or("layer")?.path().to_string_lossy().to_string();
                    lc.push_str(&format!("<array><string>{}</string><string>{}</string></array>\n", esc(n), esc(&dir)));
                }
                lc.push_str("</array>\n</plist>\n");
                std::fs::write(s.join("layercontents.plist"), lc).map_err(|e| e.to_string())
            });
            if !matches!(r, Ok(Ok(()))) {
                status.push(Err("src-save-err".to_string()));
                continue;
            }
        }
        let mut font = match guarded(|| Font::load(&s)) {
            Ok(Ok(f)) => f,
            Ok(Err(e)) => {
                status.push(Err(format!("load-err:{}", variant(&format!("{:?}", e)))));
                continue;
            }
            Err(_) => {
                status.push(Err("load-panic".to_string()));
                continue;
            }
        };
        for op in ops {
            les_apply(&mut font, op);
        }
        let target = dst.join(format!("{}.ufo", i));
        match guarded(|| font.save(&target)) {
            Ok(Ok(())) => status.push(Ok(font_pv(&font).encode())),
            Ok(Err(e)) => {
                rm_rf(&target);
                status.push(Err(format!("save-err:{}", variant(&format!("{:?}", e)))));
            }
            Err(_) => {
                rm_rf(&target);
                status.push(Err("save-panic".to_string()));
            }
        }
    }
    let lines = python(&["read", dst.to_str().unwrap(), &cases.len().to_string()]);
    if std::env::var("VERIF_KEEP").is_err() {
        rm_rf(&src);
        rm_rf(&dst);
    }
    status.into_iter().zip(lines).map(|(st, l)| match st {
        Ok(dump) => format!("{} {}", dump, l),
        Err(e) => e,
    }).collect()
}

pub fn observe(toks: &[&str], scratch: &Path) -> String {
    match toks[0] {
        "n2i" if toks.len() == 3 => run_n2i(&[(toks[1].to_string(), "-".to_string(), PV::decode(toks[2]))], scratch).remove(0),
        "n2i" => run_n2i(&[(toks[1].to_string(), toks[2].to_string(), PV::decode(toks[3]))], scratch).remove(0),
        "i2n" if toks.len() == 4 => {
            run_i2n(&[(toks[1].parse().unwrap(), toks[2].to_string(), "all".to_string(), PV::decode(toks[3]))], scratch).remove(0)
        }
        "i2n" => {
            run_i2n(&[(toks[1].parse().unwrap(), toks[2].to_string(), toks[3].to_string(), PV::decode(toks[4]))], scratch).remove(0)
        }
        "les" => {
            let ops: Vec<String> = if toks[4] == "-" { Vec::new() } else { toks[4].split(';').map(|x| x.to_string()).collect() };
            run_les(&[(toks[1].to_string(), toks[2].parse().unwrap(), PV::decode(toks[3]), ops)], scratch).remove(0)
        }
        _ => "bad-direction".to_string(),
    }
}

const I2N_FEATS: &[&str] = &[
    "explicit-close-advance", "explicit-close-unicode", "explicit-close-anchor", "explicit-close-guideline",
    "explicit-close-image", "explicit-close-point", "explicit-close-component", "empty-note", "self-closed-glyph",
    "comment-in-glyph", "cdata-note", "doctype-glif", "cdata-fontinfo", "cdata-font-lib", "cdata-layer-color",
    "cdata-layer-lib", "cdata-glyph-lib",
];
const N2I_FEATS: &[&str] = &["cr-note", "crlf-note", "ctrl-note", "cr-glyph-lib", "cr-font-lib", "ctrl-font-lib", "tab-image-filename"];

pub fn gen(tier: &str, seed: u64, out: &mut dyn Write) {
    let scratch: PathBuf = scratch_root().join("c05");
    std::fs::create_dir_all(&scratch).unwrap();
    let mut rng = Rng::new(seed);
    let (n_n2i, n_i2n) = if tier == "thorough" { (12_000, 12_000) } else { (750, 750) };
    let batch = 150;
    // ---- norad writes, the independent reader reads
    let mut todo = n_n2i;
    let mut first = true;
    while todo > 0 {
        let k = todo.min(batch);
        todo -= k;
        let mut cases = Vec::new();
        for j in 0..k {
            // the first two fonts of a run carry every font-info key
            let all_info = first && j < 2;
            let feat = if !all_info && rng.chance(1, 25) { *rng.pick(N2I_FEATS) } else { "-" };
            // one save in four goes over something that is already there
            let pre = if feat != "-" { "-" } else { *rng.pick(&["-", "-", "-", "-", "-", "-", "rich", "junk"]) };
            cases.push((feat.to_string(), pre.to_string(), gen_desc(&mut rng, true, feat, all_info)));
        }
        first = false;
        let obs = run_n2i(&cases, &scratch);
        for ((feat, pre, desc), o) in cases.iter().zip(obs) {
            writeln!(out, "C05 n2i {} {} {} => {}", feat, pre, desc.encode(), o).unwrap();
        }
    }
    // ---- the independent writer writes, norad reads
    let mut todo = n_i2n;
    let mut first = true;
    while todo > 0 {
        let k = todo.min(batch);
        todo -= k;
        let mut cases = Vec::new();
        for j in 0..k {
            let all_info = first && j < 2;
            let want = if !all_info && rng.chance(1, 12) { *rng.pick(I2N_FEATS) } else { "-" };
            let s = rng.next() >> 1;
            let req = if want != "-" { "all" } else { *rng.pick(&["all", "all", "all", "all", "all", "default-only", "all-default", "named"]) };
            cases.push((s, want.to_string(), req.to_string(), gen_desc(&mut rng, false, want, all_info)));
        }
        first = false;
        let obs = run_i2n(&cases, &scratch);
        for ((s, want, req, desc), o) in cases.iter().zip(obs) {
            writeln!(out, "C05 i2n {} {} {} {} => {}", s, want, req, desc.encode(), o).unwrap();
        }
    }
    // ---- layer order at the thresholds of sort / rotate implementations: independent writer -> norad
    {
        let mut descs = layer_order_cases(&mut rng, tier == "thorough");
        // closed contours started anywhere (every rotation): quadratic, off-curve only, cubic
        descs.extend(contour_rotation_cases());
        if tier == "thorough" {
            descs.extend(contour_rotation_cases());
        }
        let cases: Vec<(u64, String, String, PV)> =
            descs.into_iter().map(|dsc| (rng.next() >> 1, "-".to_string(), "all".to_string(), dsc)).collect();
        let obs = run_i2n(&cases, &scratch);
        for ((s, want, req, desc), o) in cases.iter().zip(obs) {
            writeln!(out, "C05 i2n {} {} {} {} => {}", s, want, req, desc.encode(), o).unwrap();
        }
    }
    // ---- the same trees loaded and written back (independent writer / norad-written and re-ordered by hand)
    {
        let mut cases = Vec::new();
        for (j, dsc) in layer_order_cases(&mut rng, tier == "thorough").into_iter().enumerate() {
            let kind = if j % 2 == 0 { "i" } else { "r" };
            cases.push((kind.to_string(), rng.next() >> 1, dsc, Vec::new()));
        }
        let obs = run_les(&cases, &scratch);
        for ((kind, sd, desc, _), o) in cases.iter().zip(obs) {
            writeln!(out, "C05 les {} {} {} - => {}", kind, sd, desc.encode(), o).unwrap();
        }
    }
    // ---- load, edit with clashing names, save, independent reader
    let mut todo = if tier == "thorough" { 8_000 } else { 400 };
    while todo > 0 {
        let k = todo.min(batch);
        todo -= k;
        let mut cases = Vec::new();
        for _ in 0..k {
            let kind = *rng.pick(&["n", "n", "i", "i", "i", "r"]);
            let sd = rng.next() >> 1;
            let mut desc = gen_desc(&mut rng, kind == "n", "", false);
            if kind == "i" && rng.chance(2, 3) {
                desc = with_conv_files(&desc);
            }
            let ops = gen_les_ops(&mut rng, &desc);
            cases.push((kind.to_string(), sd, desc, ops));
        }
        let obs = run_les(&cases, &scratch);
        for ((kind, sd, desc, ops), o) in cases.iter().zip(obs) {
            let opt = if ops.is_empty() { "-".to_string() } else { ops.join(";") };
            writeln!(out, "C05 les {} {} {} {} => {}", kind, sd, desc.encode(), opt, o).unwrap();
        }
    }
    rm_rf(&scratch);
}
