//! C18: designspace save -> load.  Documents are built through the public structs, saved with
//! `DesignSpaceDocument::save`, the saved file is read (a) by `DesignSpaceDocument::load` and (b) by an
//! independent XML reader (python3 xml.etree, `c18_xmltree.py`, spawned once per batch).
//!
//! line:  `C18 <doc> => save:ok <tree|notxml> load:ok eq:<0|1> <doc>`
//!        `C18 <doc> => save:ok <tree|notxml> load:err|load:panic`
//!        `C18 <doc> => save:err | save:panic`
//!        `C18L <hex file bytes> => <tree|notxml> load:ok <doc> | load:err | load:panic`
//!
//! doc   := ( doc F ( AXIS* ) ( rules first|last RULE* ) ( SRC* ) ( INST* ) ( KV* ) )
//! AXIS  := ( S S F B OF OF OVALS OMAP )          name tag default hidden minimum maximum values map
//! OVALS := ~ | ( F* )        OMAP := ~ | ( ( F F )* )
//! RULE  := ( OS ( ( COND* )* ) ( ( S S )* ) )    name conditionsets substitutions(name with)
//! COND  := ( S OF OF )                           name minimum maximum
//! SRC   := ( OS OS OS S OS ( DIM* ) )            familyname stylename name filename layer location
//! INST  := ( OS OS OS OS OS OS OS ( DIM* ) ( KV* ) )
//! DIM   := ( S OF OF OF )                        name uservalue xvalue yvalue
//! KV    := ( S PV )
//! PV    := ( s S ) | ( i INT ) | ( r D ) | ( b 0|1 ) | ( data HEX ) | ( date SECS NANOS S|! )
//!        | ( arr PV* ) | ( dict KV* ) | ( uid N )
//! S = hex utf-8 or `-`;  OS = `~` | `=`S;  F = <8 hex bits>:<hex of Rust Display>;  OF = `~` | `=`F;
//! D = <16 hex bits>:<hex of Rust Display>;  date display = Date::to_xml_format, `!` when it panics.
use crate::common::*;
use crate::rng::Rng;
use norad::designspace::*;
use norad::Name;
use plist::{Dictionary, Value};
use std::io::Write;
use std::path::PathBuf;
use std::time::{Duration, SystemTime, UNIX_EPOCH};

const PY: &str = include_str!("c18_xmltree.py");

// ------------------------------------------------------------------ S-expressions

#[derive(Clone, Debug)]
pub enum SX {
    A(String),
    L(Vec<SX>),
}

fn a(s: impl Into<String>) -> SX {
    SX::A(s.into())
}

impl SX {
    fn write(&self, out: &mut Vec<String>) {
        match self {
            SX::A(s) => out.push(s.clone()),
            SX::L(xs) => {
                out.push("(".into());
                for x in xs {
                    x.write(out);
                }
                out.push(")".into());
            }
        }
    }
    fn to_line(&self) -> String {
        let mut v = Vec::new();
        self.write(&mut v);
        v.join(" ")
    }
    fn parse(toks: &[&str], pos: &mut usize) -> Option<SX> {
        let t = *toks.get(*pos)?;
        *pos += 1;
        if t == "(" {
            let mut xs = Vec::new();
            loop {
                if *toks.get(*pos)? == ")" {
                    *pos += 1;
                    return Some(SX::L(xs));
                }
                xs.push(SX::parse(toks, pos)?);
            }
        } else if t == ")" {
            None
        } else {
            Some(SX::A(t.to_string()))
        }
    }
    fn atom(&self) -> &str {
        match self {
            SX::A(s) => s,
            _ => panic!("atom expected"),
        }
    }
    fn list(&self) -> &[SX] {
        match self {
            SX::L(v) => v,
            _ => panic!("list expected"),
        }
    }
}

// ------------------------------------------------------------------ document -> tokens

fn s_tok(s: &str) -> SX {
    a(hexs(s))
}
fn os_tok(s: &Option<String>) -> SX {
    match s {
        None => a("~"),
        Some(s) => a(format!("={}", hexs(s))),
    }
}
fn f_str(x: f32) -> String {
    format!("{:08x}:{}", x.to_bits(), hexs(&x.to_string()))
}
fn f_tok(x: f32) -> SX {
    a(f_str(x))
}
fn of_tok(x: &Option<f32>) -> SX {
    match x {
        None => a("~"),
        Some(x) => a(format!("={}", f_str(*x))),
    }
}

fn date_parts(d: &plist::Date) -> (i64, u32) {
    let t: SystemTime = (*d).into();
    match t.duration_since(UNIX_EPOCH) {
        Ok(d) => (d.as_secs() as i64, d.subsec_nanos()),
        Err(e) => {
            let d = e.duration();
            if d.subsec_nanos() == 0 {
                (-(d.as_secs() as i64), 0)
            } else {
                (-(d.as_secs() as i64) - 1, 1_000_000_000 - d.subsec_nanos())
            }
        }
    }
}

fn date_from(secs: i64, nanos: u32) -> Option<plist::Date> {
    let t = if secs >= 0 {
        UNIX_EPOCH.checked_add(Duration::new(secs as u64, nanos))?
    } else {
        UNIX_EPOCH.checked_sub(Duration::new(secs.unsigned_abs(), 0))?.checked_add(Duration::new(0, nanos))?
    };
    Some(t.into())
}

fn pv_tok(v: &Value) -> SX {
    match v {
        Value::String(s) => SX::L(vec![a("s"), s_tok(s)]),
        Value::Integer(i) => {
            let txt = match i.as_signed() {
                Some(x) => x.to_string(),
                None => i.as_unsigned().unwrap().to_string(),
            };
            SX::L(vec![a("i"), a(txt)])
        }
        Value::Real(r) => SX::L(vec![a("r"), a(format!("{:016x}:{}", r.to_bits(), hexs(&r.to_string())))]),
        Value::Boolean(b) => SX::L(vec![a("b"), a(if *b { "1" } else { "0" })]),
        Value::Data(d) => SX::L(vec![a("data"), a(hex(d))]),
        Value::Date(d) => {
            let (s, n) = date_parts(d);
            let shown = match guarded(|| d.to_xml_format()) {
                Ok(t) => hexs(&t),
                Err(_) => "!".to_string(),
            };
            SX::L(vec![a("date"), a(s.to_string()), a(n.to_string()), a(shown)])
        }
        Value::Array(xs) => {
            let mut v = vec![a("arr")];
            v.extend(xs.iter().map(pv_tok));
            SX::L(v)
        }
        Value::Dictionary(d) => {
            let mut v = vec![a("dict")];
            v.extend(kvs_tok(d));
            SX::L(v)
        }
        Value::Uid(u) => SX::L(vec![a("uid"), a(u.get().to_string())]),
        _ => SX::L(vec![a("uid"), a("0")]),
    }
}

fn kvs_tok(d: &Dictionary) -> Vec<SX> {
    d.iter().map(|(k, v)| SX::L(vec![s_tok(k), pv_tok(v)])).collect()
}

fn dim_tok(d: &Dimension) -> SX {
    SX::L(vec![s_tok(&d.name), of_tok(&d.uservalue), of_tok(&d.xvalue), of_tok(&d.yvalue)])
}

pub fn doc_tok(d: &DesignSpaceDocument) -> SX {
    let axes = d
        .axes
        .iter()
        .map(|x| {
            SX::L(vec![
                s_tok(&x.name),
                s_tok(&x.tag),
                f_tok(x.default),
                a(if x.hidden { "1" } else { "0" }),
                of_tok(&x.minimum),
                of_tok(&x.maximum),
                match &x.values {
                    None => a("~"),
                    Some(v) => SX::L(v.iter().map(|f| f_tok(*f)).collect()),
                },
                match &x.map {
                    None => a("~"),
                    Some(v) => SX::L(v.iter().map(|m| SX::L(vec![f_tok(m.input), f_tok(m.output)])).collect()),
                },
            ])
        })
        .collect();
    let mut rules = vec![
        a("rules"),
        a(match d.rules.processing {
            RuleProcessing::First => "first",
            RuleProcessing::Last => "last",
        }),
    ];
    for r in &d.rules.rules {
        rules.push(SX::L(vec![
            os_tok(&r.name),
            SX::L(
                r.condition_sets
                    .iter()
                    .map(|cs| {
                        SX::L(
                            cs.conditions
                                .iter()
                                .map(|c| SX::L(vec![s_tok(&c.name), of_tok(&c.minimum), of_tok(&c.maximum)]))
                                .collect(),
                        )
                    })
                    .collect(),
            ),
            SX::L(r.substitutions.iter().map(|s| SX::L(vec![s_tok(&s.name), s_tok(&s.with)])).collect()),
        ]));
    }
    let sources = d
        .sources
        .iter()
        .map(|s| {
            SX::L(vec![
                os_tok(&s.familyname),
                os_tok(&s.stylename),
                os_tok(&s.name),
                s_tok(&s.filename),
                os_tok(&s.layer),
                SX::L(s.location.iter().map(dim_tok).collect()),
            ])
        })
        .collect();
    let instances = d
        .instances
        .iter()
        .map(|s| {
            SX::L(vec![
                os_tok(&s.familyname),
                os_tok(&s.stylename),
                os_tok(&s.name),
                os_tok(&s.filename),
                os_tok(&s.postscriptfontname),
                os_tok(&s.stylemapfamilyname),
                os_tok(&s.stylemapstylename),
                SX::L(s.location.iter().map(dim_tok).collect()),
                SX::L(kvs_tok(&s.lib)),
            ])
        })
        .collect();
    SX::L(vec![
        a("doc"),
        f_tok(d.format),
        SX::L(axes),
        SX::L(rules),
        SX::L(sources),
        SX::L(instances),
        SX::L(kvs_tok(&d.lib)),
    ])
}

// ------------------------------------------------------------------ tokens -> document (replay, corpus)

fn p_s(x: &SX) -> String {
    String::from_utf8(unhex(x.atom())).unwrap()
}
fn p_os(x: &SX) -> Option<String> {
    let t = x.atom();
    if t == "~" {
        None
    } else {
        Some(String::from_utf8(unhex(&t[1..])).unwrap())
    }
}
fn p_fbits(t: &str) -> f32 {
    f32::from_bits(u32::from_str_radix(t.split(':').next().unwrap(), 16).unwrap())
}
fn p_f(x: &SX) -> f32 {
    p_fbits(x.atom())
}
fn p_of(x: &SX) -> Option<f32> {
    let t = x.atom();
    if t == "~" {
        None
    } else {
        Some(p_fbits(&t[1..]))
    }
}
fn p_pv(x: &SX) -> Value {
    let l = x.list();
    match l[0].atom() {
        "s" => Value::String(p_s(&l[1])),
        "i" => {
            let t = l[1].atom();
            match t.parse::<i64>() {
                Ok(v) => Value::Integer(v.into()),
                Err(_) => Value::Integer(t.parse::<u64>().unwrap().into()),
            }
        }
        "r" => Value::Real(f64::from_bits(u64::from_str_radix(l[1].atom().split(':').next().unwrap(), 16).unwrap())),
        "b" => Value::Boolean(l[1].atom() == "1"),
        "data" => Value::Data(unhex(l[1].atom())),
        "date" => Value::Date(date_from(l[1].atom().parse().unwrap(), l[2].atom().parse().unwrap()).unwrap()),
        "arr" => Value::Array(l[1..].iter().map(p_pv).collect()),
        "dict" => Value::Dictionary(p_kvs(&l[1..])),
        _ => Value::Uid(plist::Uid::new(l[1].atom().parse().unwrap())),
    }
}
fn p_kvs(l: &[SX]) -> Dictionary {
    let mut d = Dictionary::new();
    for kv in l {
        let kv = kv.list();
        d.insert(p_s(&kv[0]), p_pv(&kv[1]));
    }
    d
}
fn p_dim(x: &SX) -> Dimension {
    let l = x.list();
    Dimension { name: p_s(&l[0]), uservalue: p_of(&l[1]), xvalue: p_of(&l[2]), yvalue: p_of(&l[3]) }
}

pub fn parse_doc(x: &SX) -> DesignSpaceDocument {
    let l = x.list();
    let axes = l[2]
        .list()
        .iter()
        .map(|x| {
            let l = x.list();
            Axis {
                name: p_s(&l[0]),
                tag: p_s(&l[1]),
                default: p_f(&l[2]),
                hidden: l[3].atom() == "1",
                minimum: p_of(&l[4]),
                maximum: p_of(&l[5]),
                values: match &l[6] {
                    SX::A(_) => None,
                    SX::L(v) => Some(v.iter().map(p_f).collect()),
                },
                map: match &l[7] {
                    SX::A(_) => None,
                    SX::L(v) => Some(
                        v.iter()
                            .map(|m| AxisMapping { input: p_f(&m.list()[0]), output: p_f(&m.list()[1]) })
                            .collect(),
                    ),
                },
            }
        })
        .collect();
    let rl = l[3].list();
    let rules = Rules {
        processing: if rl[1].atom() == "last" { RuleProcessing::Last } else { RuleProcessing::First },
        rules: rl[2..]
            .iter()
            .map(|r| {
                let r = r.list();
                Rule {
                    name: p_os(&r[0]),
                    condition_sets: r[1]
                        .list()
                        .iter()
                        .map(|cs| ConditionSet {
                            conditions: cs
                                .list()
                                .iter()
                                .map(|c| {
                                    let c = c.list();
                                    Condition { name: p_s(&c[0]), minimum: p_of(&c[1]), maximum: p_of(&c[2]) }
                                })
                                .collect(),
                        })
                        .collect(),
                    substitutions: r[2]
                        .list()
                        .iter()
                        .map(|s| Substitution {
                            name: Name::new(&p_s(&s.list()[0])).unwrap(),
                            with: Name::new(&p_s(&s.list()[1])).unwrap(),
                        })
                        .collect(),
                }
            })
            .collect(),
    };
    let sources = l[4]
        .list()
        .iter()
        .map(|s| {
            let s = s.list();
            Source {
                familyname: p_os(&s[0]),
                stylename: p_os(&s[1]),
                name: p_os(&s[2]),
                filename: p_s(&s[3]),
                layer: p_os(&s[4]),
                location: s[5].list().iter().map(p_dim).collect(),
            }
        })
        .collect();
    let instances = l[5]
        .list()
        .iter()
        .map(|s| {
            let s = s.list();
            Instance {
                familyname: p_os(&s[0]),
                stylename: p_os(&s[1]),
                name: p_os(&s[2]),
                filename: p_os(&s[3]),
                postscriptfontname: p_os(&s[4]),
                stylemapfamilyname: p_os(&s[5]),
                stylemapstylename: p_os(&s[6]),
                location: s[7].list().iter().map(p_dim).collect(),
                lib: p_kvs(s[8].list()),
            }
        })
        .collect();
    DesignSpaceDocument { format: p_f(&l[1]), axes, rules, sources, instances, lib: p_kvs(l[6].list()) }
}

// ------------------------------------------------------------------ observation

fn scratch_dir() -> PathBuf {
    let d = scratch_root().join("c18");
    std::fs::create_dir_all(&d).unwrap();
    d
}

/// run the independent reader once over a list of files
fn py_trees(paths: &[PathBuf]) -> Vec<String> {
    use std::process::{Command, Stdio};
    if paths.is_empty() {
        return Vec::new();
    }
    let mut child = Command::new("python3")
        .arg("-c")
        .arg(PY)
        .stdin(Stdio::piped())
        .stdout(Stdio::piped())
        .spawn()
        .expect("python3");
    {
        let mut stdin = child.stdin.take().unwrap();
        for p in paths {
            writeln!(stdin, "{}", p.display()).unwrap();
        }
    }
    let outp = child.wait_with_output().unwrap();
    let text = String::from_utf8(outp.stdout).unwrap();
    let v: Vec<String> = text.lines().map(|s| s.to_string()).collect();
    assert_eq!(v.len(), paths.len(), "python reader answered {} of {}", v.len(), paths.len());
    v
}

fn load_obs(p: &PathBuf, orig: Option<&DesignSpaceDocument>) -> String {
    match guarded(|| DesignSpaceDocument::load(p)) {
        Err(_) => "load:panic".to_string(),
        Ok(Err(_)) => "load:err".to_string(),
        Ok(Ok(d2)) => match orig {
            Some(d) => format!("load:ok eq:{} {}", if &d2 == d { 1 } else { 0 }, doc_tok(&d2).to_line()),
            None => format!("load:ok {}", doc_tok(&d2).to_line()),
        },
    }
}

pub fn observe_batch(docs: &[DesignSpaceDocument]) -> Vec<String> {
    let dir = scratch_dir();
    let mut saved: Vec<Option<&'static str>> = Vec::new(); // None = ok
    let mut paths = Vec::new();
    for (i, d) in docs.iter().enumerate() {
        let p = dir.join(format!("{}.designspace", i));
        rm_rf(&p);
        // every other document is saved over an existing, much longer file: whatever was there before
        // must not survive (a save that does not truncate leaves a tail behind the root element)
        if i % 2 == 1 {
            let mut junk = String::from("<?xml version='1.0' encoding='UTF-8'?>\n<designspace format=\"4.1\">\n");
            for k in 0..4000 {
                junk.push_str(&format!("  <instance name=\"old{}\"/>\n", k));
            }
            junk.push_str("</designspace>\n<!-- tail of an older, longer file -->\n<instances><instance name=\"tail\"/></instances>\n");
            std::fs::write(&p, junk).unwrap();
        }
        match guarded(|| d.save(&p)) {
            Err(_) => saved.push(Some("save:panic")),
            Ok(Err(_)) => saved.push(Some("save:err")),
            Ok(Ok(())) => {
                saved.push(None);
                paths.push(p);
            }
        }
    }
    let trees = py_trees(&paths);
    let mut out = Vec::new();
    let mut k = 0;
    for (i, d) in docs.iter().enumerate() {
        match saved[i] {
            Some(s) => out.push(s.to_string()),
            None => {
                let p = &paths[k];
                out.push(format!("save:ok {} {}", trees[k], load_obs(p, Some(d))));
                k += 1;
            }
        }
    }
    for p in &paths {
        rm_rf(p);
    }
    out
}

pub fn observe_files(files: &[Vec<u8>]) -> Vec<String> {
    let dir = scratch_dir();
    let mut paths = Vec::new();
    for (i, f) in files.iter().enumerate() {
        let p = dir.join(format!("in{}.designspace", i));
        std::fs::write(&p, f).unwrap();
        paths.push(p);
    }
    let trees = py_trees(&paths);
    let out = paths.iter().zip(trees.iter()).map(|(p, t)| format!("{} {}", t, load_obs(p, None))).collect();
    for p in &paths {
        rm_rf(p);
    }
    out
}

/// replay of one line (input tokens without the model name)
pub fn observe(model: &str, toks: &[&str]) -> String {
    if model == "C18L" {
        return observe_files(&[unhex(toks[0])]).remove(0);
    }
    if model == "C18F" {
        let seed: u64 = toks[0].parse().unwrap();
        let mut pos = 1;
        let sx = SX::parse(toks, &mut pos).expect("doc tokens");
        return observe_foreign(&[(seed, parse_doc(&sx))]).remove(0);
    }
    let mut pos = 0;
    let sx = SX::parse(toks, &mut pos).expect("doc tokens");
    let d = parse_doc(&sx);
    observe_batch(&[d]).remove(0)
}

// ------------------------------------------------------------------ generator

struct G {
    rng: Rng,
    /// 0 = every string inside the technical guards; otherwise ONE kind of known trouble per document:
    /// 1 tab/line break in attribute values, 2 CR in lib text, 3 characters XML forbids,
    /// 4 lib strings/keys with blanks at an end, 5 a date `Date::to_xml_format` cannot print
    dirty: u8,
    /// only documents inside the stated well-formedness (used by the foreign-surface stream)
    strict: bool,
}

const CLEAN_BOTH: [&str; 22] = [
    "Weight", "wght", "Width", "a", "b", "I.narrow", "", "<&>\"'", "a<b", "&amp;", "]]>", "ünï cödé", "😀𝒳", "日本語",
    "a b", "a  b", "x=\"1\"", "'", "\u{7f}", "\u{85}\u{a0}", "\u{2003}x\u{2003}", "0x10",
];
const CLEAN_ATTR: [&str; 4] = [" lead", "trail ", "  ", " "];
const CLEAN_TEXT: [&str; 4] = ["a\nb", "a\tb", "line1\n  line2", "a \n b"];
const DIRTY_ATTR: [&str; 5] = ["a\tb", "a\nb", "a\rb", "\t", "x\r\ny"];
const DIRTY_TEXT_CR: [&str; 3] = ["a\rb", "a\r\nb", "x\ry\rz"];
const DIRTY_TEXT_EDGE: [&str; 6] = [" a", "a ", "   ", "\n", "\ta\t", " "];
const DIRTY_BOTH: [&str; 3] = ["a\u{1}b", "\u{b}", "\u{1f}"];

impl G {
    fn word(&mut self) -> String {
        let n = 1 + self.rng.below(6);
        let alphabet: Vec<char> = "abcXYZ09._- <&>\"'é😀".chars().collect();
        let mut s = String::new();
        for _ in 0..n {
            s.push(*self.rng.pick(&alphabet));
        }
        // keep the random words inside every guard: no edge blanks
        s.trim_matches(' ').to_string()
    }
    fn s(&mut self, attr: bool) -> String {
        if self.dirty != 0 && self.rng.chance(1, 3) {
            match (self.dirty, attr) {
                (1, true) => return self.rng.pick(&DIRTY_ATTR).to_string(),
                (2, false) => return self.rng.pick(&DIRTY_TEXT_CR).to_string(),
                (3, _) => return self.rng.pick(&DIRTY_BOTH).to_string(),
                (4, false) => return self.rng.pick(&DIRTY_TEXT_EDGE).to_string(),
                _ => {}
            }
        }
        match self.rng.below(10) {
            0..=3 => self.rng.pick(&CLEAN_BOTH).to_string(),
            4 => if attr { self.rng.pick(&CLEAN_ATTR) } else { self.rng.pick(&CLEAN_TEXT) }.to_string(),
            _ => self.word(),
        }
    }
    fn os(&mut self) -> Option<String> {
        if self.rng.chance(1, 2) {
            Some(self.s(true))
        } else {
            None
        }
    }
    fn name(&mut self) -> Name {
        loop {
            let s = self.s(true);
            if let Ok(n) = Name::new(&s) {
                return n;
            }
        }
    }
    fn f(&mut self) -> f32 {
        const POOL: [f32; 22] = [
            0.0, -0.0, 1.0, -1.0, 400.0, 100.5, 0.1, 1e-7, 1e30, f32::MAX, f32::MIN, f32::MIN_POSITIVE, 1e-45,
            16777216.0, 16777218.0, -1.5, 0.3, 1000.0, 700.0, f32::INFINITY, f32::NEG_INFINITY, 5e-324,
        ];
        match self.rng.below(10) {
            0..=4 => *self.rng.pick(&POOL),
            5..=6 => self.rng.range(-2000, 2000) as f32,
            7 => self.rng.range(-200000, 200000) as f32 / 100.0,
            _ => loop {
                let x = f32::from_bits(self.rng.next() as u32);
                if !x.is_nan() {
                    return x;
                }
            },
        }
    }
    fn of(&mut self) -> Option<f32> {
        if self.rng.chance(1, 2) {
            Some(self.f())
        } else {
            None
        }
    }
    fn real(&mut self) -> f64 {
        const POOL: [f64; 12] =
            [0.0, -0.0, 1.0, 42.42, std::f64::consts::PI, 1e300, 5e-324, -1.5, 1e21, 1e-7, f64::INFINITY, f64::NEG_INFINITY];
        match self.rng.below(4) {
            0..=1 => *self.rng.pick(&POOL),
            2 => self.rng.range(-100000, 100000) as f64,
            _ => loop {
                let x = f64::from_bits(self.rng.next());
                if !x.is_nan() {
                    return x;
                }
            },
        }
    }
    fn int(&mut self) -> plist::Integer {
        match self.rng.below(8) {
            0 => i64::MIN.into(),
            1 => i64::MAX.into(),
            2 => u64::MAX.into(),
            3 => (i64::MAX as u64 + 1).into(),
            4 => 0i64.into(),
            5 => (-1i64).into(),
            6 => (self.rng.next() as i64).into(),
            _ => self.rng.range(-1000, 1000).into(),
        }
    }
    fn date(&mut self) -> plist::Date {
        // whole range that Date::to_xml_format can print: years 0000..=9999
        const LO: i64 = -62_167_219_200;
        const HI: i64 = 253_402_300_799;
        if self.dirty == 5 && self.rng.chance(1, 2) {
            let secs = *self.rng.pick(&[LO - 1, HI + 1, 400_000_000_000, -100_000_000_000]);
            return date_from(secs, 0).unwrap();
        }
        let secs = match self.rng.below(8) {
            0 => LO,
            1 => HI,
            2 => 0,
            3 => -1,
            4 => 978_307_200,
            _ => self.rng.range(LO, HI),
        };
        let nanos = match self.rng.below(4) {
            0 => self.rng.below(1_000_000_000) as u32,
            1 => 500_000_000,
            _ => 0,
        };
        date_from(secs, nanos).unwrap()
    }
    fn key(&mut self) -> String {
        self.s(false)
    }
    fn pv(&mut self, depth: u32) -> Value {
        let top = if depth >= 3 { 7 } else { 10 };
        match self.rng.below(top) {
            0 | 1 => Value::String(self.s(false)),
            2 => Value::Integer(self.int()),
            3 => Value::Real(self.real()),
            4 => Value::Boolean(self.rng.chance(1, 2)),
            5 => {
                // short blobs mostly; one in four long enough to need several 76-column base64 lines
                // (a writer that wraps long data, as other plist writers do, must still be readable)
                let n = if self.rng.chance(1, 4) { 50 + self.rng.below(150) } else { self.rng.below(7) };
                Value::Data((0..n).map(|_| self.rng.next() as u8).collect())
            }
            6 => Value::Date(self.date()),
            7 | 8 => {
                let n = self.rng.below(4);
                Value::Array((0..n).map(|_| self.pv(depth + 1)).collect())
            }
            _ => Value::Dictionary(self.dict(depth + 1, 3)),
        }
    }
    fn dict(&mut self, depth: u32, max: usize) -> Dictionary {
        let mut d = Dictionary::new();
        let n = self.rng.below(max + 1);
        for _ in 0..n {
            let k = self.key();
            let v = self.pv(depth);
            d.insert(k, v);
        }
        d
    }
    fn lib(&mut self) -> Dictionary {
        if self.rng.chance(1, 2) {
            Dictionary::new()
        } else {
            let mut d = self.dict(0, 5);
            if d.is_empty() {
                d.insert("k".into(), self.pv(0));
            }
            d
        }
    }
    fn location(&mut self, axes: &[Axis]) -> Vec<Dimension> {
        let mut v = Vec::new();
        let n = 1 + self.rng.below(3);
        for i in 0..n {
            let name = if !axes.is_empty() && self.rng.chance(3, 4) { axes[i % axes.len()].name.clone() } else { self.s(true) };
            v.push(Dimension { name, uservalue: self.of(), xvalue: self.of(), yvalue: self.of() });
        }
        v
    }
    fn axis(&mut self) -> Axis {
        let discrete = self.rng.chance(1, 3);
        let mut ax = Axis {
            name: self.s(true),
            tag: self.s(true),
            default: self.f(),
            hidden: self.rng.chance(1, 3),
            minimum: None,
            maximum: None,
            values: None,
            map: None,
        };
        if discrete {
            let n = self.rng.below(5);
            ax.values = Some((0..n).map(|_| self.f()).collect());
            if self.rng.chance(1, 6) {
                ax.minimum = self.of();
            }
        } else {
            ax.minimum = self.of();
            ax.maximum = self.of();
            if self.rng.chance(1, 10) {
                ax.values = Some(vec![self.f()]);
            }
        }
        if self.rng.chance(1, 2) {
            let n = 1 + self.rng.below(4);
            ax.map = Some((0..n).map(|_| AxisMapping { input: self.f(), output: self.f() }).collect());
        }
        ax
    }
    fn rule(&mut self) -> Rule {
        let ncs = 1 + self.rng.below(3);
        let nsub = 1 + self.rng.below(3);
        Rule {
            name: self.os(),
            condition_sets: (0..ncs)
                .map(|_| {
                    let nc = self.rng.below(4);
                    ConditionSet {
                        conditions: (0..nc)
                            .map(|_| Condition { name: self.s(true), minimum: self.of(), maximum: self.of() })
                            .collect(),
                    }
                })
                .collect(),
            substitutions: (0..nsub).map(|_| Substitution { name: self.name(), with: self.name() }).collect(),
        }
    }
    fn doc(&mut self) -> DesignSpaceDocument {
        let na = 1 + self.rng.below(3);
        let axes: Vec<Axis> = (0..na).map(|_| self.axis()).collect();
        let nr = if self.rng.chance(2, 5) { 0 } else { 1 + self.rng.below(3) };
        let rules = Rules {
            processing: if self.rng.chance(1, 2) { RuleProcessing::Last } else { RuleProcessing::First },
            rules: (0..nr).map(|_| self.rule()).collect(),
        };
        let ns = 1 + self.rng.below(3);
        let sources = (0..ns)
            .map(|_| Source {
                familyname: self.os(),
                stylename: self.os(),
                name: self.os(),
                filename: self.s(true),
                layer: self.os(),
                location: self.location(&axes),
            })
            .collect();
        let ni = self.rng.below(3);
        let instances = (0..ni)
            .map(|_| Instance {
                familyname: self.os(),
                stylename: self.os(),
                name: self.os(),
                filename: self.os(),
                postscriptfontname: self.os(),
                stylemapfamilyname: self.os(),
                stylemapstylename: self.os(),
                location: self.location(&axes),
                lib: if self.rng.chance(1, 2) { self.lib() } else { Dictionary::new() },
            })
            .collect();
        let mut d = DesignSpaceDocument { format: self.f(), axes, rules, sources, instances, lib: self.lib() };
        if self.rng.chance(1, 3) {
            d.format = *self.rng.pick(&[3.0f32, 4.0, 4.1, 5.0, 5.1]);
        }
        // a small share of documents outside the stated well-formedness: the model still has to predict
        // what save/load does with them
        if !self.strict && self.rng.chance(1, 25) {
            match self.rng.below(9) {
                0 => d.sources[0].location.clear(),
                1 => d.axes[0].map = Some(vec![]),
                2 => d.rules.rules.push(Rule { name: None, condition_sets: vec![], substitutions: vec![] }),
                3 => {
                    let mut r = self.rule();
                    r.substitutions.clear();
                    d.rules.rules.push(r)
                }
                4 => d.axes.clear(),
                5 => d.sources.clear(),
                6 => d.format = f32::NAN,
                7 => {
                    d.lib.insert("nan".into(), Value::Real(f64::NAN));
                }
                _ => {
                    d.lib.insert("uid".into(), Value::Array(vec![Value::Uid(plist::Uid::new(7))]));
                }
            }
        }
        d
    }
}


// ------------------------------------------------------------------ foreign surface (load only)
//
// `C18F <seed> <doc> => surf:<features> alts ( F* ) ( D* ) <tree|notxml> load:ok eq:<0|1> <doc> | load:err`
//
// The same document written by an independent writer the way other tools spell it: other declaration
// (double quotes, lower-case encoding name, none, a BOM), attribute order shuffled, single-quoted
// attributes, numeric character references, CDATA sections in lib strings, comments between elements,
// explicit close tags, CRLF / tab / no indentation, numbers as `400.0` / `4e2`, `hidden="1"`, long `<data>`
// wrapped at 76 columns (as plistlib / Apple write it), and the format-5 elements and attributes norad
// does not model (`labelname`, `labels`, `mappings`, `variable-fonts`, `elidedfallbackname`, `xml:lang`).
// Oracle: the loaded document equals the description.

struct FW {
    rng: Rng,
    out: String,
    nl: &'static str,
    unit: &'static str,
    alts32: Vec<String>,
    alts64: Vec<String>,
    feats: std::collections::BTreeSet<&'static str>,
    wrap_data: bool,
}

impl FW {
    fn ind(&mut self, depth: usize) {
        for _ in 0..depth {
            self.out.push_str(self.unit);
        }
    }
    fn esc(&mut self, s: &str, quote: Option<char>, refs: bool) -> String {
        let mut o = String::new();
        for ch in s.chars() {
            match ch {
                '&' => o.push_str("&amp;"),
                '<' => o.push_str("&lt;"),
                // `]]>` must not appear in character data; in attribute values a raw `>` is fine
                '>' => o.push_str(if quote.is_none() || self.rng.chance(1, 2) { "&gt;" } else { ">" }),
                '"' if quote == Some('"') => o.push_str("&quot;"),
                '\'' if quote == Some('\'') => o.push_str("&apos;"),
                '"' | '\'' if self.rng.chance(1, 3) => o.push_str(if ch == '"' { "&quot;" } else { "&#39;" }),
                c if refs && c.is_ascii_alphanumeric() && self.rng.chance(1, 12) => {
                    self.feats.insert("charref");
                    if self.rng.chance(1, 2) {
                        o.push_str(&format!("&#x{:X};", c as u32))
                    } else {
                        o.push_str(&format!("&#{};", c as u32))
                    }
                }
                c if refs && (c as u32) > 0x7f && self.rng.chance(1, 4) => {
                    self.feats.insert("charref");
                    o.push_str(&format!("&#x{:x};", c as u32))
                }
                c => o.push(c),
            }
        }
        o
    }
    fn num_spelling(&mut self, shown: String, exp: String) -> Option<String> {
        let plain_int = shown.chars().all(|c| c.is_ascii_digit() || c == '-') && shown.len() < 12;
        match self.rng.below(6) {
            0 if plain_int => Some(format!("{}.0", shown)),
            1 if plain_int => Some(format!("{}.00", shown)),
            2 if shown != "inf" && shown != "-inf" && shown != "NaN" => Some(exp),
            _ => None,
        }
    }
    fn f32s(&mut self, x: f32) -> String {
        match self.num_spelling(x.to_string(), format!("{:e}", x)) {
            Some(sp) => {
                self.feats.insert("number-spelling");
                self.alts32.push(format!("{:08x}:{}", x.to_bits(), hexs(&sp)));
                sp
            }
            None => x.to_string(),
        }
    }
    fn f64s(&mut self, x: f64) -> String {
        match self.num_spelling(x.to_string(), format!("{:e}", x)) {
            Some(sp) => {
                self.feats.insert("number-spelling");
                self.alts64.push(format!("{:016x}:{}", x.to_bits(), hexs(&sp)));
                sp
            }
            None => x.to_string(),
        }
    }
    fn comment(&mut self, depth: usize) {
        if self.rng.chance(1, 6) {
            self.feats.insert("comment");
            self.ind(depth);
            self.out.push_str("<!-- a comment with <tags> & \"quotes\" -->");
            self.out.push_str(self.nl);
        }
    }
    /// start tag with shuffled, variously quoted attributes; `close`: 0 = open, 1 = empty element
    fn tag(&mut self, depth: usize, name: &str, attrs: Vec<(&str, String)>, empty: bool) {
        self.comment(depth);
        self.ind(depth);
        self.out.push('<');
        self.out.push_str(name);
        let mut attrs = attrs;
        // Fisher-Yates
        for i in (1..attrs.len()).rev() {
            let j = self.rng.below(i + 1);
            attrs.swap(i, j);
        }
        for (k, v) in attrs {
            let q = if self.rng.chance(1, 2) { '\'' } else { '"' };
            if q == '\'' {
                self.feats.insert("single-quotes");
            }
            let sep = if self.rng.chance(1, 10) { format!("{} {}", self.nl, self.unit) } else { " ".to_string() };
            // character references only in free-text attributes (nobody spells numbers or keywords with them)
            let free = !matches!(
                k,
                "format" | "default" | "minimum" | "maximum" | "values" | "input" | "output" | "uservalue" | "xvalue"
                    | "yvalue" | "hidden" | "processing"
            );
            let e = self.esc(&v, Some(q), free);
            self.out.push_str(&format!("{}{}={}{}{}", sep, k, q, e, q));
        }
        if empty {
            match self.rng.below(3) {
                0 => self.out.push_str("/>"),
                1 => self.out.push_str(" />"),
                _ => {
                    self.feats.insert("explicit-close");
                    self.out.push_str(&format!("></{}>", name))
                }
            }
        } else {
            self.out.push('>');
        }
        self.out.push_str(self.nl);
    }
    fn close(&mut self, depth: usize, name: &str) {
        self.ind(depth);
        self.out.push_str(&format!("</{}>{}", name, self.nl));
    }
    fn os(attrs: &mut Vec<(&'static str, String)>, k: &'static str, v: &Option<String>) {
        if let Some(v) = v {
            attrs.push((k, v.clone()));
        }
    }
    fn of(&mut self, attrs: &mut Vec<(&'static str, String)>, k: &'static str, v: &Option<f32>) {
        if let Some(v) = v {
            let s = self.f32s(*v);
            attrs.push((k, s));
        }
    }
    fn location(&mut self, depth: usize, l: &[Dimension]) {
        self.tag(depth, "location", vec![], false);
        for d in l {
            let mut a = vec![("name", d.name.clone())];
            self.of(&mut a, "uservalue", &d.uservalue);
            self.of(&mut a, "xvalue", &d.xvalue);
            self.of(&mut a, "yvalue", &d.yvalue);
            self.tag(depth + 1, "dimension", a, true);
        }
        self.close(depth, "location");
    }
    fn leaf(&mut self, depth: usize, name: &str, text: &str, is_string: bool) {
        self.ind(depth);
        if text.is_empty() {
            if self.rng.chance(1, 2) {
                self.out.push_str(&format!("<{}/>{}", name, self.nl));
            } else {
                self.out.push_str(&format!("<{}></{}>{}", name, name, self.nl));
            }
            return;
        }
        let body = if is_string && !text.contains("]]>") && self.rng.chance(1, 5) {
            self.feats.insert("cdata");
            format!("<![CDATA[{}]]>", text)
        } else {
            self.esc(text, None, is_string)
        };
        self.out.push_str(&format!("<{}>{}</{}>{}", name, body, name, self.nl));
    }
    fn pv(&mut self, depth: usize, v: &Value) {
        match v {
            Value::String(s) => self.leaf(depth, "string", s, true),
            Value::Integer(i) => {
                let t = match i.as_signed() {
                    Some(x) => x.to_string(),
                    None => i.as_unsigned().unwrap().to_string(),
                };
                self.leaf(depth, "integer", &t, false)
            }
            Value::Real(r) => {
                let t = self.f64s(*r);
                self.leaf(depth, "real", &t, false)
            }
            Value::Boolean(b) => {
                let n = if *b { "true" } else { "false" };
                self.ind(depth);
                if self.rng.chance(1, 4) {
                    self.out.push_str(&format!("<{}></{}>{}", n, n, self.nl));
                } else {
                    self.out.push_str(&format!("<{}/>{}", n, self.nl));
                }
            }
            Value::Data(d) => {
                let b64 = b64(d);
                if self.wrap_data && b64.len() > 76 {
                    // plistlib / Apple: lines of 76 columns, each indented, close tag on its own line
                    self.feats.insert("data-wrapped");
                    self.ind(depth);
                    self.out.push_str("<data>");
                    self.out.push_str(self.nl);
                    let mut i = 0;
                    while i < b64.len() {
                        let j = (i + 76).min(b64.len());
                        self.ind(depth);
                        self.out.push_str(&b64[i..j]);
                        self.out.push_str(self.nl);
                        i = j;
                    }
                    self.ind(depth);
                    self.out.push_str("</data>");
                    self.out.push_str(self.nl);
                } else if !b64.is_empty() && self.rng.chance(1, 3) {
                    // surrounded by white space only (as in norad's own unit test)
                    self.ind(depth);
                    self.out.push_str(&format!("<data>{}{}{}</data>{}", self.nl, b64, self.nl, self.nl));
                } else {
                    self.leaf(depth, "data", &b64, false)
                }
            }
            Value::Date(d) => self.leaf(depth, "date", &d.to_xml_format(), false),
            Value::Array(xs) => {
                if xs.is_empty() && self.rng.chance(1, 2) {
                    self.ind(depth);
                    self.out.push_str(&format!("<array/>{}", self.nl));
                } else {
                    self.tag(depth, "array", vec![], false);
                    for x in xs {
                        self.pv(depth + 1, x);
                    }
                    self.close(depth, "array");
                }
            }
            Value::Dictionary(d) => self.dict(depth, d),
            _ => {}
        }
    }
    fn dict(&mut self, depth: usize, d: &Dictionary) {
        if d.is_empty() && self.rng.chance(1, 2) {
            self.ind(depth);
            self.out.push_str(&format!("<dict/>{}", self.nl));
            return;
        }
        self.tag(depth, "dict", vec![], false);
        for (k, v) in d.iter() {
            self.leaf(depth + 1, "key", k, true);
            self.pv(depth + 1, v);
        }
        self.close(depth, "dict");
    }
    fn lib(&mut self, depth: usize, d: &Dictionary) {
        if d.is_empty() {
            return;
        }
        self.tag(depth, "lib", vec![], false);
        self.dict(depth + 1, d);
        self.close(depth, "lib");
    }
    fn doc(&mut self, d: &DesignSpaceDocument) {
        match self.rng.below(5) {
            0 => self.out.push_str("<?xml version=\"1.0\" encoding=\"UTF-8\"?>\n"),
            1 => self.out.push_str("<?xml version='1.0' encoding='utf-8'?>\r\n"),
            2 => self.out.push_str("<?xml version=\"1.0\" encoding=\"UTF-8\" standalone=\"yes\"?>\n"),
            3 => {
                self.feats.insert("bom");
                self.out.push_str("\u{feff}<?xml version=\"1.0\" encoding=\"UTF-8\"?>\n")
            }
            _ => {
                self.feats.insert("no-declaration");
            }
        }
        let f = self.f32s(d.format);
        self.tag(0, "designspace", vec![("format", f)], false);
        let mut ax_attrs = vec![];
        if self.rng.chance(1, 3) {
            self.feats.insert("ignored-elements");
            ax_attrs.push(("elidedfallbackname", "Regular".to_string()));
        }
        self.tag(1, "axes", ax_attrs, false);
        for a in &d.axes {
            let mut at = vec![("name", a.name.clone()), ("tag", a.tag.clone())];
            let s = self.f32s(a.default);
            at.push(("default", s));
            if a.hidden {
                let h = if self.rng.chance(1, 2) {
                    self.feats.insert("hidden-1");
                    "1"
                } else {
                    "true"
                };
                at.push(("hidden", h.to_string()));
            }
            self.of(&mut at, "minimum", &a.minimum);
            self.of(&mut at, "maximum", &a.maximum);
            if let Some(vs) = &a.values {
                let items: Vec<String> = vs.iter().map(|v| self.f32s(*v)).collect();
                at.push(("values", items.join(" ")));
            }
            let extras = self.rng.chance(1, 3);
            if a.map.is_none() && !extras {
                self.tag(2, "axis", at, true);
            } else {
                self.tag(2, "axis", at, false);
                if extras {
                    self.feats.insert("ignored-elements");
                    self.ind(3);
                    self.out.push_str(&format!("<labelname xml:lang=\"en\">Label</labelname>{}", self.nl));
                }
                if let Some(ms) = &a.map {
                    for m in ms {
                        let i = self.f32s(m.input);
                        let o = self.f32s(m.output);
                        self.tag(3, "map", vec![("input", i), ("output", o)], true);
                    }
                }
                if extras {
                    self.ind(3);
                    self.out.push_str(&format!(
                        "<labels ordering=\"0\"><label uservalue=\"1\" name=\"One\" elidable=\"true\"/></labels>{}",
                        self.nl
                    ));
                }
                self.close(2, "axis");
            }
        }
        if self.rng.chance(1, 4) {
            self.feats.insert("ignored-elements");
            self.ind(2);
            self.out.push_str(&format!(
                "<mappings><mapping><input><dimension name=\"a\" xvalue=\"1\"/></input><output><dimension name=\"a\" xvalue=\"2\"/></output></mapping></mappings>{}",
                self.nl
            ));
        }
        self.close(1, "axes");
        if !(d.rules.rules.is_empty() && d.rules.processing == RuleProcessing::First && self.rng.chance(1, 2)) {
            let mut at = vec![];
            if d.rules.processing == RuleProcessing::Last {
                at.push(("processing", "last".to_string()));
            } else if self.rng.chance(1, 2) {
                at.push(("processing", "first".to_string()));
            }
            if d.rules.rules.is_empty() {
                self.tag(1, "rules", at, true);
            } else {
                self.tag(1, "rules", at, false);
                for r in &d.rules.rules {
                    let mut at = vec![];
                    Self::os(&mut at, "name", &r.name);
                    self.tag(2, "rule", at, false);
                    for cs in &r.condition_sets {
                        if cs.conditions.is_empty() {
                            self.tag(3, "conditionset", vec![], true);
                        } else {
                            self.tag(3, "conditionset", vec![], false);
                            for c in &cs.conditions {
                                let mut at = vec![("name", c.name.clone())];
                                self.of(&mut at, "minimum", &c.minimum);
                                self.of(&mut at, "maximum", &c.maximum);
                                self.tag(4, "condition", at, true);
                            }
                            self.close(3, "conditionset");
                        }
                    }
                    for sb in &r.substitutions {
                        self.tag(3, "sub", vec![("name", sb.name.to_string()), ("with", sb.with.to_string())], true);
                    }
                    self.close(2, "rule");
                }
                self.close(1, "rules");
            }
        }
        self.tag(1, "sources", vec![], false);
        for s in &d.sources {
            let mut at = vec![("filename", s.filename.clone())];
            Self::os(&mut at, "familyname", &s.familyname);
            Self::os(&mut at, "stylename", &s.stylename);
            Self::os(&mut at, "name", &s.name);
            Self::os(&mut at, "layer", &s.layer);
            self.tag(2, "source", at, false);
            if self.rng.chance(1, 4) {
                self.feats.insert("ignored-elements");
                self.ind(3);
                self.out.push_str(&format!("<info copy=\"1\"/><features copy=\"1\"/>{}", self.nl));
            }
            self.location(3, &s.location);
            self.close(2, "source");
        }
        self.close(1, "sources");
        if self.rng.chance(1, 4) {
            self.feats.insert("ignored-elements");
            self.ind(1);
            self.out.push_str(&format!(
                "<variable-fonts><variable-font name=\"VF\"><axis-subsets><axis-subset name=\"Weight\"/></axis-subsets></variable-font></variable-fonts>{}",
                self.nl
            ));
        }
        if !d.instances.is_empty() {
            self.tag(1, "instances", vec![], false);
            for i in &d.instances {
                let mut at = vec![];
                Self::os(&mut at, "familyname", &i.familyname);
                Self::os(&mut at, "stylename", &i.stylename);
                Self::os(&mut at, "name", &i.name);
                Self::os(&mut at, "filename", &i.filename);
                Self::os(&mut at, "postscriptfontname", &i.postscriptfontname);
                Self::os(&mut at, "stylemapfamilyname", &i.stylemapfamilyname);
                Self::os(&mut at, "stylemapstylename", &i.stylemapstylename);
                self.tag(2, "instance", at, false);
                // the lib before or after the location
                if self.rng.chance(1, 2) {
                    self.lib(3, &i.lib);
                    self.location(3, &i.location);
                } else {
                    self.location(3, &i.location);
                    self.lib(3, &i.lib);
                }
                if self.rng.chance(1, 4) {
                    self.feats.insert("ignored-elements");
                    self.ind(3);
                    self.out.push_str(&format!("<kerning/><info/>{}", self.nl));
                }
                self.close(2, "instance");
            }
            self.close(1, "instances");
        }
        self.lib(1, &d.lib);
        self.close(0, "designspace");
    }
}

fn b64(d: &[u8]) -> String {
    const T: &[u8; 64] = b"ABCDEFGHIJKLMNOPQRSTUVWXYZabcdefghijklmnopqrstuvwxyz0123456789+/";
    let mut o = String::new();
    for ch in d.chunks(3) {
        let n = ((ch[0] as u32) << 16) | ((*ch.get(1).unwrap_or(&0) as u32) << 8) | (*ch.get(2).unwrap_or(&0) as u32);
        o.push(T[(n >> 18) as usize & 63] as char);
        o.push(T[(n >> 12) as usize & 63] as char);
        o.push(if ch.len() > 1 { T[(n >> 6) as usize & 63] as char } else { '=' });
        o.push(if ch.len() > 2 { T[n as usize & 63] as char } else { '=' });
    }
    o
}

/// (file bytes, "surf:… alts ( … ) ( … )")
fn foreign_file(d: &DesignSpaceDocument, seed: u64) -> (Vec<u8>, String) {
    let mut rng = Rng::new(seed ^ 0xF0E1);
    let nl = *rng.pick(&["\n", "\n", "\r\n", ""]);
    let unit = *rng.pick(&["  ", "    ", "\t", ""]);
    let wrap_data = rng.chance(1, 3);
    let mut w = FW {
        rng,
        out: String::new(),
        nl,
        unit,
        alts32: vec![],
        alts64: vec![],
        feats: Default::default(),
        wrap_data,
    };
    if nl == "\r\n" {
        w.feats.insert("crlf");
    }
    if nl.is_empty() {
        w.feats.insert("no-whitespace");
    }
    w.doc(d);
    let feats: Vec<&str> = w.feats.iter().cloned().collect();
    let head = format!(
        "surf:{} alts ( {} ) ( {} )",
        if feats.is_empty() { "-".to_string() } else { feats.join(",") },
        w.alts32.join(" "),
        w.alts64.join(" ")
    )
    .replace("(  )", "( )");
    (w.out.into_bytes(), head)
}

pub fn observe_foreign(cases: &[(u64, DesignSpaceDocument)]) -> Vec<String> {
    let dir = scratch_dir();
    let mut paths = Vec::new();
    let mut heads = Vec::new();
    for (i, (seed, d)) in cases.iter().enumerate() {
        let (bytes, head) = foreign_file(d, *seed);
        let p = dir.join(format!("f{}.designspace", i));
        std::fs::write(&p, &bytes).unwrap();
        if std::env::var("VERIF_C18_DEBUG").is_ok() {
            eprintln!("{}\n--> {:?}", String::from_utf8_lossy(&bytes), DesignSpaceDocument::load(&p).map(|_| ()));
        }
        paths.push(p);
        heads.push(head);
    }
    let trees = py_trees(&paths);
    let out = (0..cases.len())
        .map(|i| format!("{} {} {}", heads[i], trees[i], load_obs(&paths[i], Some(&cases[i].1))))
        .collect();
    for p in &paths {
        rm_rf(p);
    }
    out
}

fn gen_foreign(tier: &str, seed: u64, out: &mut impl Write) {
    let n = if tier == "quick" { 1500 } else { 30_000 };
    let mut g = G { rng: Rng::new(seed ^ 0xC18F), dirty: 0, strict: true };
    let mut done = 0;
    while done < n {
        let m = 500.min(n - done);
        let cases: Vec<(u64, DesignSpaceDocument)> = (0..m).map(|_| (g.rng.next() % 1_000_000, g.doc())).collect();
        let obs = observe_foreign(&cases);
        for ((s, d), o) in cases.iter().zip(obs.iter()) {
            writeln!(out, "C18F {} {} => {}", s, doc_tok(d).to_line(), o).unwrap();
        }
        done += m;
    }
}

fn base_doc() -> DesignSpaceDocument {
    DesignSpaceDocument {
        format: 5.0,
        axes: vec![Axis {
            name: "Weight".into(),
            tag: "wght".into(),
            default: 400.0,
            hidden: false,
            minimum: Some(100.0),
            maximum: Some(900.0),
            values: None,
            map: None,
        }],
        rules: Rules::default(),
        sources: vec![Source {
            familyname: None,
            stylename: None,
            name: None,
            filename: "a.ufo".into(),
            layer: None,
            location: vec![Dimension { name: "Weight".into(), uservalue: None, xvalue: Some(400.0), yvalue: None }],
        }],
        instances: vec![],
        lib: Dictionary::new(),
    }
}

/// the hand-made boundary documents of corpus/C18 (printed by `harness gen C18 witness 0`)
fn witnesses() -> Vec<(&'static str, DesignSpaceDocument)> {
    let mut v = Vec::new();
    let lib1 = |k: &str, val: Value| {
        let mut d = base_doc();
        d.lib.insert(k.into(), val);
        d
    };
    v.push(("lib-data", lib1("d", Value::Data(vec![1, 2, 3]))));
    v.push(("lib-data-empty", lib1("d", Value::Data(vec![]))));
    v.push(("lib-date", lib1("d", Value::Date(date_from(0, 0).unwrap()))));
    v.push(("lib-date-nanos", lib1("d", Value::Date(date_from(5, 123_456_789).unwrap()))));
    let mut d = base_doc();
    d.rules.processing = RuleProcessing::Last;
    v.push(("processing-last-no-rules", d));
    v.push(("lib-blank-string", lib1("s", Value::String("   ".into()))));
    v.push(("lib-edge-blank-string", lib1("s", Value::String("  a b  ".into()))));
    let mut d = lib1("a", Value::Integer(1.into()));
    d.lib.insert(" a".into(), Value::Integer(2.into()));
    d.lib.insert("c".into(), Value::Integer(3.into()));
    v.push(("lib-key-collides-after-trim", d));
    let mut d = lib1("a", Value::Integer(1.into()));
    d.lib.insert("".into(), Value::Integer(2.into()));
    v.push(("lib-empty-key", d));
    let mut d = base_doc();
    d.axes[0].name = "We\tig\nht".into();
    v.push(("attr-tab-newline", d));
    v.push(("text-cr", lib1("s", Value::String("a\rb".into()))));
    let mut d = base_doc();
    d.sources[0].filename = "a\u{1}b".into();
    v.push(("forbidden-char", d));
    v.push(("date-out-of-range", lib1("d", Value::Date(date_from(400_000_000_000, 0).unwrap()))));
    v.push(("lib-uid", lib1("u", Value::Uid(plist::Uid::new(5)))));
    let mut d = base_doc();
    d.axes[0].map = Some(vec![]);
    v.push(("map-some-empty", d));
    let mut d = base_doc();
    d.axes[0].values = Some(vec![]);
    v.push(("values-some-empty", d));
    let mut d = base_doc();
    d.sources[0].location.clear();
    v.push(("empty-location", d));
    let mut d = base_doc();
    d.rules.rules.push(Rule { name: None, condition_sets: vec![], substitutions: vec![] });
    v.push(("rule-without-conditionset", d));
    let mut d = base_doc();
    d.format = f32::NAN;
    v.push(("format-nan", d));
    let mut d = lib1("r", Value::Real(-0.0));
    d.lib.insert("big".into(), Value::Integer(u64::MAX.into()));
    d.lib.insert("min".into(), Value::Integer(i64::MIN.into()));
    d.lib.insert("t".into(), Value::Boolean(true));
    d.lib.insert(
        "nest".into(),
        Value::Array(vec![Value::Array(vec![]), Value::Dictionary(Dictionary::new()), Value::Boolean(false), Value::String("".into())]),
    );
    d.instances.push(Instance {
        familyname: Some("".into()),
        stylename: Some("<&>\"'".into()),
        name: Some(" x ".into()),
        location: d.sources[0].location.clone(),
        lib: d.lib.clone(),
        ..Default::default()
    });
    d.axes[0].hidden = true;
    d.axes[0].values = Some(vec![1.0, -0.0, f32::MAX]);
    d.axes[0].map = Some(vec![AxisMapping { input: 100.0, output: 20.0 }, AxisMapping { input: 900.0, output: 220.0 }]);
    d.rules = Rules {
        processing: RuleProcessing::Last,
        rules: vec![Rule {
            name: Some("r".into()),
            condition_sets: vec![
                ConditionSet { conditions: vec![] },
                ConditionSet { conditions: vec![Condition { name: "Weight".into(), minimum: Some(1.0), maximum: None }] },
            ],
            substitutions: vec![Substitution { name: Name::new("a").unwrap(), with: Name::new("a.alt").unwrap() }],
        }],
    };
    v.push(("everything", d));
    v
}

fn gen_witness(out: &mut impl Write) {
    let w = witnesses();
    let docs: Vec<DesignSpaceDocument> = w.iter().map(|x| x.1.clone()).collect();
    let obs = observe_batch(&docs);
    for ((name, d), o) in w.iter().zip(obs.iter()) {
        writeln!(out, "# {}", name).unwrap();
        writeln!(out, "C18 {} => {}", doc_tok(d).to_line(), o).unwrap();
    }
    // the designspace files of norad's own test data, through load only
    let repo = std::env::var("VERIF_REPO").unwrap_or_else(|_| "/repo".to_string());
    let mut names: Vec<_> = std::fs::read_dir(format!("{}/testdata", repo))
        .unwrap()
        .map(|e| e.unwrap().path())
        .filter(|p| p.extension().map(|e| e == "designspace").unwrap_or(false))
        .collect();
    names.sort();
    let files: Vec<Vec<u8>> = names.iter().map(|p| std::fs::read(p).unwrap()).collect();
    let obs = observe_files(&files);
    for ((p, f), o) in names.iter().zip(files.iter()).zip(obs.iter()) {
        writeln!(out, "# file {}", p.file_name().unwrap().to_string_lossy()).unwrap();
        writeln!(out, "C18L {} => {}", hex(f), o).unwrap();
    }
}

pub fn gen(tier: &str, seed: u64, out: &mut impl Write) {
    if tier == "witness" {
        return gen_witness(out);
    }
    let n = if tier == "quick" { 3000 } else { 100_000 };
    let mut g = G { rng: Rng::new(seed ^ 0xC18), dirty: 0, strict: false };
    let batch = 500;
    let mut done = 0;
    while done < n {
        let m = batch.min(n - done);
        let docs: Vec<DesignSpaceDocument> = (0..m)
            .map(|_| {
                g.dirty = if g.rng.chance(1, 10) { 1 + g.rng.below(5) as u8 } else { 0 };
                g.doc()
            })
            .collect();
        let obs = observe_batch(&docs);
        for (d, o) in docs.iter().zip(obs.iter()) {
            writeln!(out, "C18 {} => {}", doc_tok(d).to_line(), o).unwrap();
        }
        done += m;
    }
    gen_foreign(tier, seed, out);
}
