//! C01: a font built through the public API is saved (`Font::save_with_options`) and loaded back
//! (`Font::load`); both values are dumped canonically, the written plists are inspected for the
//! integer/real decision of the number writers, and the harness' own field-by-field comparison is added.
//!
//! input tokens (after `C01`), every user string hex-encoded, every f64 as 16 hex digits:
//!   o=<t|s>.<count>.<d|s>     indent char, indent count, quote style
//!   m=<creator|~>.<minor>      metainfo
//!   fi=<seed|~>                the font-info fields that are NOT modelled (rebuilt from the seed; ~ = all default)
//!   n=<key>:<bits>;...         the int-or-float font-info fields (list elements `key.<i>`, list length `key.n`)
//!   u=<bits|~>                 unitsPerEm
//!   g=~ | g=<guide>;<guide>    global guidelines: <id|~>/<pv|~>/<seed>   (seed -> line, name, colour)
//!   lib=<pv>  gr=<name>:<n>+<n>;...  k=<first>:<second>/<bits>+...;...  fe=<hex>
//!   L=<layer>|<layer>          <name>/<colour b.b.b.b|~>/<pv>/<glyph>+<glyph>   glyph = <name>:<seed>
//!   d=<path>:<bytes>;...  i=<path>:<bytes>;...
//!   h=<op>;<op>;...            (optional) the BUILD HISTORY of the layers: the container calls that lead to `L=`,
//!                              successful and REFUSED ones interleaved; every op ends in the outcome the documented
//!                              behaviour gives (ok | err:<Variant> | some | none):
//!                                nl,<name>,<exp>  rl,<old>,<new>,<ow>,<exp>  xl,<name>,<exp>   (LayerContents)
//!                                ig,<layer>,<name>,<seed>,<exp>  rg,<layer>,<old>,<new>,<ow>,<exp>  xg,<layer>,<name>,<exp>
//!                                di,<path>,<bytes>,<exp>  ii,<path>,<bytes>,<exp>              (stores, after d= / i=)
//!                              `L=` is then the state the containers must REPORT after the history
//! observation tokens: pre=<dir>:<file>+..|..  rep=<layer>:<len()>:<names of iter()>|..  hr=<outcome>;..
//!   save= load= files= mw= nw= uw= kw= lc= fw= cw=
//!   then the loaded font in the input syntax (m= fi= n= u= g= lib= gr= k= fe= L= d= i=), post=, cmp=
//! plist values (pv): comma-separated prefix stream: s<hex> i<int> r<bits> b0|b1 x<hex> t<hex> a<n>,.. d<n>,<key>,<pv>,..
use crate::common::*;
use crate::rng::Rng;
use norad::fontinfo::*;
use norad::{
    AffineTransform, Anchor, Codepoints, Color, Component, Contour, ContourPoint, Font, Glyph, Guideline, Identifier,
    Image, Line, Name, PointType, QuoteChar, WriteOptions,
};
use plist::{Dictionary, Value};
use std::collections::BTreeMap;
use std::io::Write;
use std::path::{Path, PathBuf};

pub const DEFAULT_CREATOR: &str = "org.linebender.norad";

// ------------------------------------------------------------------ plist values <-> tokens

pub fn pv_print(v: &Value, out: &mut Vec<String>) {
    match v {
        Value::String(s) => out.push(format!("s{}", hexs(s))),
        Value::Integer(i) => {
            if let Some(x) = i.as_signed() {
                out.push(format!("i{}", x))
            } else {
                out.push(format!("i{}", i.as_unsigned().unwrap()))
            }
        }
        Value::Real(r) => out.push(format!("r{}", f64bits(*r))),
        Value::Boolean(b) => out.push(format!("b{}", if *b { 1 } else { 0 })),
        Value::Data(d) => out.push(format!("x{}", hex(d))),
        Value::Date(d) => out.push(format!("t{}", hexs(&d.to_xml_format()))),
        Value::Array(a) => {
            out.push(format!("a{}", a.len()));
            for x in a {
                pv_print(x, out);
            }
        }
        Value::Dictionary(d) => {
            // canonical: keys sorted (plist::Dictionary equality ignores the order)
            let mut keys: Vec<&String> = d.keys().collect();
            keys.sort();
            out.push(format!("d{}", keys.len()));
            for k in keys {
                out.push(hexs(k));
                pv_print(d.get(k).unwrap(), out);
            }
        }
        _ => out.push("?".to_string()),
    }
}

pub fn pv_str(v: &Value) -> String {
    let mut o = Vec::new();
    pv_print(v, &mut o);
    o.join(",")
}

pub fn dict_str(d: &Dictionary) -> String {
    pv_str(&Value::Dictionary(d.clone()))
}

fn pv_parse_at(toks: &[&str], pos: &mut usize) -> Value {
    let t = toks[*pos];
    *pos += 1;
    let (c, rest) = t.split_at(1);
    match c {
        "s" => Value::String(String::from_utf8(unhex(rest)).unwrap()),
        "i" => {
            if let Ok(x) = rest.parse::<i64>() {
                Value::Integer(x.into())
            } else {
                Value::Integer(rest.parse::<u64>().unwrap().into())
            }
        }
        "r" => Value::Real(f64::from_bits(u64::from_str_radix(rest, 16).unwrap())),
        "b" => Value::Boolean(rest == "1"),
        "x" => Value::Data(unhex(rest)),
        "t" => Value::Date(plist::Date::from_xml_format(&String::from_utf8(unhex(rest)).unwrap()).unwrap()),
        "a" => {
            let n: usize = rest.parse().unwrap();
            Value::Array((0..n).map(|_| pv_parse_at(toks, pos)).collect())
        }
        "d" => {
            let n: usize = rest.parse().unwrap();
            let mut d = Dictionary::new();
            for _ in 0..n {
                let k = String::from_utf8(unhex(toks[*pos])).unwrap();
                *pos += 1;
                let v = pv_parse_at(toks, pos);
                d.insert(k, v);
            }
            Value::Dictionary(d)
        }
        _ => panic!("bad pv token {}", t),
    }
}

pub fn pv_parse(s: &str) -> Value {
    let toks: Vec<&str> = s.split(',').collect();
    let mut pos = 0;
    pv_parse_at(&toks, &mut pos)
}

fn dict_parse(s: &str) -> Dictionary {
    pv_parse(s).into_dictionary().unwrap()
}

// ------------------------------------------------------------------ the description of a font

#[derive(Clone, Debug, Default)]
pub struct LayerSpec {
    pub name: String,
    pub color: Option<[u64; 4]>,
    pub lib: Dictionary,
    pub glyphs: Vec<(String, String)>, // name, token (seed, or X.. for a loaded glyph that differs)
}

#[derive(Clone, Debug, Default)]
pub struct Spec {
    pub opts: (char, usize, char),
    /// what the save target holds beforehand: absent | empty | ufo | ufojunk | partial | junk
    pub target: String,
    pub creator: Option<String>,
    pub minor: u32,
    pub fi: Option<String>,
    pub nums: Vec<(String, u64)>,
    pub upm: Option<u64>,
    pub guides: Option<Vec<(Option<String>, Option<Dictionary>, String)>>,
    pub lib: Dictionary,
    pub groups: Vec<(String, Vec<String>)>,
    pub kerning: Vec<(String, Vec<(String, u64)>)>,
    pub features: String,
    pub layers: Vec<LayerSpec>,
    pub data: Vec<(String, Vec<u8>)>,
    pub images: Vec<(String, Vec<u8>)>,
    /// build history of the layers (empty: the layers are built straight from `layers`)
    pub hist: Vec<(Op, String)>,
}

/// one call of the container API; layers and glyphs are addressed by the names they have AT THAT MOMENT
#[derive(Clone, Debug, PartialEq)]
pub enum Op {
    NewLayer(String),
    RenameLayer(String, String, bool),
    RemoveLayer(String),
    Insert(String, String, String),
    RenameGlyph(String, String, String, bool),
    RemoveGlyph(String, String),
    Data(String, Vec<u8>),
    Image(String, Vec<u8>),
}

fn op_token(op: &Op, exp: &str) -> String {
    let b = |x: &bool| if *x { "1" } else { "0" };
    match op {
        Op::NewLayer(n) => format!("nl,{},{}", hexs(n), exp),
        Op::RenameLayer(a, n, ow) => format!("rl,{},{},{},{}", hexs(a), hexs(n), b(ow), exp),
        Op::RemoveLayer(n) => format!("xl,{},{}", hexs(n), exp),
        Op::Insert(l, n, tok) => format!("ig,{},{},{},{}", hexs(l), hexs(n), tok, exp),
        Op::RenameGlyph(l, a, n, ow) => format!("rg,{},{},{},{},{}", hexs(l), hexs(a), hexs(n), b(ow), exp),
        Op::RemoveGlyph(l, n) => format!("xg,{},{},{}", hexs(l), hexs(n), exp),
        Op::Data(p, by) => format!("di,{},{},{}", hexs(p), hex(by), exp),
        Op::Image(p, by) => format!("ii,{},{},{}", hexs(p), hex(by), exp),
    }
}

fn op_parse(t: &str) -> (Op, String) {
    let f: Vec<&str> = t.split(',').collect();
    let u = |i: usize| unhexs(f[i]);
    let op = match f[0] {
        "nl" => Op::NewLayer(u(1)),
        "rl" => Op::RenameLayer(u(1), u(2), f[3] == "1"),
        "xl" => Op::RemoveLayer(u(1)),
        "ig" => Op::Insert(u(1), u(2), f[3].to_string()),
        "rg" => Op::RenameGlyph(u(1), u(2), u(3), f[4] == "1"),
        "xg" => Op::RemoveGlyph(u(1), u(2)),
        "di" => Op::Data(u(1), unhex(f[2])),
        "ii" => Op::Image(u(1), unhex(f[2])),
        x => panic!("unknown history op {}", x),
    };
    (op, f[f.len() - 1].to_string())
}

fn opt_hex(s: &Option<String>) -> String {
    match s {
        Some(x) => hexs(x),
        None => "~".into(),
    }
}

fn bits4(c: &[u64; 4]) -> String {
    c.iter().map(|b| format!("{:016x}", b)).collect::<Vec<_>>().join(".")
}

pub fn font_tokens(s: &Spec) -> Vec<String> {
    let mut t = Vec::new();
    t.push(format!("m={}.{}", opt_hex(&s.creator), s.minor));
    t.push(format!("fi={}", s.fi.clone().unwrap_or("~".into())));
    t.push(format!("n={}", s.nums.iter().map(|(k, b)| format!("{}:{:016x}", k, b)).collect::<Vec<_>>().join(";")));
    t.push(format!("u={}", s.upm.map(|b| format!("{:016x}", b)).unwrap_or("~".into())));
    t.push(format!(
        "g={}",
        match &s.guides {
            None => "~".to_string(),
            Some(gs) => gs
                .iter()
                .map(|(id, lib, seed)| format!(
                    "{}/{}/{}",
                    opt_hex(id),
                    lib.as_ref().map(dict_str).unwrap_or("~".into()),
                    seed
                ))
                .collect::<Vec<_>>()
                .join(";"),
        }
    ));
    t.push(format!("lib={}", dict_str(&s.lib)));
    t.push(format!(
        "gr={}",
        s.groups
            .iter()
            .map(|(g, ns)| format!("{}:{}", hexs(g), ns.iter().map(|n| hexs(n)).collect::<Vec<_>>().join("+")))
            .collect::<Vec<_>>()
            .join(";")
    ));
    t.push(format!(
        "k={}",
        s.kerning
            .iter()
            .map(|(a, m)| format!(
                "{}:{}",
                hexs(a),
                m.iter().map(|(b, v)| format!("{}/{:016x}", hexs(b), v)).collect::<Vec<_>>().join("+")
            ))
            .collect::<Vec<_>>()
            .join(";")
    ));
    t.push(format!("fe={}", hexs(&s.features)));
    t.push(format!(
        "L={}",
        s.layers
            .iter()
            .map(|l| format!(
                "{}/{}/{}/{}",
                hexs(&l.name),
                l.color.as_ref().map(bits4).unwrap_or("~".into()),
                dict_str(&l.lib),
                l.glyphs.iter().map(|(n, tok)| format!("{}:{}", hexs(n), tok)).collect::<Vec<_>>().join("+")
            ))
            .collect::<Vec<_>>()
            .join("|")
    ));
    let st = |v: &Vec<(String, Vec<u8>)>| {
        v.iter().map(|(p, b)| format!("{}:{}", hexs(p), hex(b))).collect::<Vec<_>>().join(";")
    };
    t.push(format!("d={}", st(&s.data)));
    t.push(format!("i={}", st(&s.images)));
    t
}

pub fn input_tokens(s: &Spec) -> Vec<String> {
    let mut t = vec![format!("o={}.{}.{}", s.opts.0, s.opts.1, s.opts.2)];
    t.push(format!("t={}", if s.target.is_empty() { "absent" } else { &s.target }));
    if !s.hist.is_empty() {
        t.push(format!("h={}", s.hist.iter().map(|(op, e)| op_token(op, e)).collect::<Vec<_>>().join(";")));
    }
    t.extend(font_tokens(s));
    t
}

fn unhexs(s: &str) -> String {
    String::from_utf8(unhex(s)).unwrap()
}

fn opt_unhex(s: &str) -> Option<String> {
    if s == "~" {
        None
    } else {
        Some(unhexs(s))
    }
}

fn split_ne<'a>(s: &'a str, sep: char) -> Vec<&'a str> {
    if s.is_empty() {
        Vec::new()
    } else {
        s.split(sep).collect()
    }
}

fn pbits(s: &str) -> u64 {
    u64::from_str_radix(s, 16).unwrap()
}

pub fn parse_spec(toks: &[&str]) -> Spec {
    let mut s = Spec::default();
    for t in toks {
        let (k, v) = t.split_once('=').unwrap();
        match k {
            "t" => s.target = v.to_string(),
            "h" => s.hist = split_ne(v, ';').iter().map(|o| op_parse(o)).collect(),
            "o" => {
                let p: Vec<&str> = v.split('.').collect();
                s.opts = (p[0].chars().next().unwrap(), p[1].parse().unwrap(), p[2].chars().next().unwrap());
            }
            "m" => {
                let (c, m) = v.split_once('.').unwrap();
                s.creator = opt_unhex(c);
                s.minor = m.parse().unwrap();
            }
            "fi" => s.fi = if v == "~" { None } else { Some(v.to_string()) },
            "n" => {
                s.nums = split_ne(v, ';')
                    .iter()
                    .map(|e| {
                        let (k, b) = e.split_once(':').unwrap();
                        (k.to_string(), pbits(b))
                    })
                    .collect()
            }
            "u" => s.upm = if v == "~" { None } else { Some(pbits(v)) },
            "g" => {
                s.guides = if v == "~" {
                    None
                } else {
                    Some(
                        split_ne(v, ';')
                            .iter()
                            .map(|e| {
                                let p: Vec<&str> = e.split('/').collect();
                                (
                                    opt_unhex(p[0]),
                                    if p[1] == "~" { None } else { Some(dict_parse(p[1])) },
                                    p[2].to_string(),
                                )
                            })
                            .collect(),
                    )
                }
            }
            "lib" => s.lib = dict_parse(v),
            "gr" => {
                s.groups = split_ne(v, ';')
                    .iter()
                    .map(|e| {
                        let (g, ns) = e.split_once(':').unwrap();
                        (unhexs(g), split_ne(ns, '+').iter().map(|n| unhexs(n)).collect())
                    })
                    .collect()
            }
            "k" => {
                s.kerning = split_ne(v, ';')
                    .iter()
                    .map(|e| {
                        let (a, m) = e.split_once(':').unwrap();
                        (
                            unhexs(a),
                            split_ne(m, '+')
                                .iter()
                                .map(|x| {
                                    let (b, bits) = x.split_once('/').unwrap();
                                    (unhexs(b), pbits(bits))
                                })
                                .collect(),
                        )
                    })
                    .collect()
            }
            "fe" => s.features = unhexs(v),
            "L" => {
                s.layers = v
                    .split('|')
                    .map(|l| {
                        let p: Vec<&str> = l.split('/').collect();
                        LayerSpec {
                            name: unhexs(p[0]),
                            color: if p[1] == "~" {
                                None
                            } else {
                                let c: Vec<u64> = p[1].split('.').map(pbits).collect();
                                Some([c[0], c[1], c[2], c[3]])
                            },
                            lib: dict_parse(p[2]),
                            glyphs: split_ne(p[3], '+')
                                .iter()
                                .map(|g| {
                                    let (n, tok) = g.split_once(':').unwrap();
                                    (unhexs(n), tok.to_string())
                                })
                                .collect(),
                        }
                    })
                    .collect()
            }
            "d" | "i" => {
                let st: Vec<(String, Vec<u8>)> = split_ne(v, ';')
                    .iter()
                    .map(|e| {
                        let (p, b) = e.split_once(':').unwrap();
                        (unhexs(p), unhex(b))
                    })
                    .collect();
                if k == "d" {
                    s.data = st
                } else {
                    s.images = st
                }
            }
            _ => {}
        }
    }
    s
}

// ------------------------------------------------------------------ parts rebuilt from seeds

const SCALARS: [&str; 12] = [
    "ascender",
    "capHeight",
    "descender",
    "italicAngle",
    "postscriptBlueFuzz",
    "postscriptBlueShift",
    "postscriptDefaultWidthX",
    "postscriptNominalWidthX",
    "postscriptSlantAngle",
    "postscriptUnderlinePosition",
    "postscriptUnderlineThickness",
    "xHeight",
];
const LISTS: [(&str, usize, bool); 6] = [
    ("postscriptBlueValues", 14, true),
    ("postscriptFamilyBlues", 14, true),
    ("postscriptFamilyOtherBlues", 10, true),
    ("postscriptOtherBlues", 10, true),
    ("postscriptStemSnapH", 12, false),
    ("postscriptStemSnapV", 12, false),
];

fn scalar_mut<'a>(fi: &'a mut FontInfo, k: &str) -> &'a mut Option<f64> {
    match k {
        "ascender" => &mut fi.ascender,
        "capHeight" => &mut fi.cap_height,
        "descender" => &mut fi.descender,
        "italicAngle" => &mut fi.italic_angle,
        "postscriptBlueFuzz" => &mut fi.postscript_blue_fuzz,
        "postscriptBlueShift" => &mut fi.postscript_blue_shift,
        "postscriptDefaultWidthX" => &mut fi.postscript_default_width_x,
        "postscriptNominalWidthX" => &mut fi.postscript_nominal_width_x,
        "postscriptSlantAngle" => &mut fi.postscript_slant_angle,
        "postscriptUnderlinePosition" => &mut fi.postscript_underline_position,
        "postscriptUnderlineThickness" => &mut fi.postscript_underline_thickness,
        "xHeight" => &mut fi.x_height,
        _ => panic!("scalar {}", k),
    }
}

fn list_mut<'a>(fi: &'a mut FontInfo, k: &str) -> &'a mut Option<Vec<f64>> {
    match k {
        "postscriptBlueValues" => &mut fi.postscript_blue_values,
        "postscriptFamilyBlues" => &mut fi.postscript_family_blues,
        "postscriptFamilyOtherBlues" => &mut fi.postscript_family_other_blues,
        "postscriptOtherBlues" => &mut fi.postscript_other_blues,
        "postscriptStemSnapH" => &mut fi.postscript_stem_snap_h,
        "postscriptStemSnapV" => &mut fi.postscript_stem_snap_v,
        _ => panic!("list {}", k),
    }
}

/// splits a font info into the modelled numbers and the rest (numbers, unitsPerEm and guidelines cleared)
fn split_info(fi: &FontInfo) -> (Vec<(String, u64)>, Option<u64>, FontInfo) {
    let mut rest = fi.clone();
    let mut nums = Vec::new();
    for k in SCALARS {
        if let Some(v) = scalar_mut(&mut rest, k).take() {
            nums.push((k.to_string(), v.to_bits()));
        }
    }
    for (k, _, _) in LISTS {
        if let Some(vs) = list_mut(&mut rest, k).take() {
            nums.push((format!("{}.n", k), vs.len() as u64));
            for (i, v) in vs.iter().enumerate() {
                nums.push((format!("{}.{}", k, i), v.to_bits()));
            }
        }
    }
    let upm = rest.units_per_em.take().map(|u| u.as_f64().to_bits());
    rest.guidelines = None;
    (nums, upm, rest)
}

const STRS: [&str; 14] = [
    "", " ", "Regular", "a\nb", " lead", "trail ", "\u{e9}\u{4e2d}", "<&>\"'", "x\ty", "\u{a0}", "\u{1F600}\u{10FFFF}", "a\rb", "&amp;lt;",
    "]]> <!-- x --> <?pi?>",
];

/// names (`Name`: everything but control characters) that need care in XML: special characters, blanks at
/// the ends, non-BMP characters, text that looks like an entity
pub const XNAMES: [&str; 9] =
    ["R&D", "a<b>c", "q\"uo'te", " lead", "trail ", "\u{1F600}x", "&amp;", "a\u{a0}b", "x]]>y"];
/// identifiers (0x20..=0x7E) that need care in XML
pub const XIDS: [&str; 9] = ["R&D", "5\" mark", "a<b>", "'q'", "a&lt;b", " sp ", "~", "id", "&#65;"];

/// a name from `plain`, or (one time in three) one of the XML-hostile names
pub fn xname(r: &mut Rng, plain: &[&str]) -> String {
    if r.chance(1, 3) {
        r.pick(&XNAMES).to_string()
    } else {
        r.pick(plain).to_string()
    }
}

fn xid(r: &mut Rng, n: usize) -> String {
    if r.chance(1, 2) {
        format!("{}{}", r.pick(&XIDS), n)
    } else {
        format!("id{}", n)
    }
}

fn rstr(r: &mut Rng) -> String {
    r.pick(&STRS).to_string()
}

/// the font-info fields other than the int-or-float numbers, unitsPerEm and the guidelines
fn info_rest(seed: u64) -> FontInfo {
    let mut r = Rng::new(seed ^ 0xf1);
    let mut fi = FontInfo::default();
    let dense = r.chance(1, 4);
    let mut on = |r: &mut Rng| if dense { r.chance(9, 10) } else { r.chance(1, 6) };
    macro_rules! strs { ($($f:ident),*) => { $( if on(&mut r) { fi.$f = Some(rstr(&mut r)); } )* } }
    strs!(
        copyright, family_name, macintosh_fond_name, note, open_type_name_compatible_full_name,
        open_type_name_description, open_type_name_designer_url, open_type_name_designer, open_type_name_license,
        open_type_name_license_url, open_type_name_manufacturer, open_type_name_manufacturer_url,
        open_type_name_preferred_family_name, open_type_name_preferred_subfamily_name, open_type_name_sample_text,
        open_type_name_unique_id, open_type_name_version, open_type_name_wws_family_name,
        open_type_name_wws_subfamily_name, open_type_os2_vendor_id, postscript_default_character,
        postscript_font_name, postscript_full_name, postscript_weight_name, style_map_family_name, style_name,
        trademark
    );
    let ints: [i32; 7] = [0, 1, -1, 750, -250, i32::MAX, i32::MIN];
    macro_rules! ints { ($($f:ident),*) => { $( if on(&mut r) { fi.$f = Some(*r.pick(&ints)); } )* } }
    ints!(
        macintosh_fond_family_id, open_type_hhea_ascender, open_type_hhea_caret_offset,
        open_type_hhea_caret_slope_rise, open_type_hhea_caret_slope_run, open_type_hhea_descender,
        open_type_hhea_line_gap, open_type_os2_strikeout_position, open_type_os2_strikeout_size,
        open_type_os2_subscript_x_offset, open_type_os2_subscript_x_size, open_type_os2_subscript_y_offset,
        open_type_os2_subscript_y_size, open_type_os2_superscript_x_offset, open_type_os2_superscript_x_size,
        open_type_os2_superscript_y_offset, open_type_os2_superscript_y_size, open_type_os2_typo_ascender,
        open_type_os2_typo_descender, open_type_os2_typo_line_gap, open_type_vhea_caret_offset,
        open_type_vhea_caret_slope_rise, open_type_vhea_caret_slope_run, open_type_vhea_vert_typo_ascender,
        open_type_vhea_vert_typo_descender, open_type_vhea_vert_typo_line_gap, postscript_unique_id, version_major,
        year
    );
    let uints: [u32; 5] = [0, 1, 400, 65535, u32::MAX];
    macro_rules! uints { ($($f:ident),*) => { $( if on(&mut r) { fi.$f = Some(*r.pick(&uints)); } )* } }
    uints!(
        open_type_head_lowest_rec_ppem, open_type_os2_weight_class, open_type_os2_win_ascent,
        open_type_os2_win_descent, version_minor, woff_major_version, woff_minor_version
    );
    let bitl = |r: &mut Rng, lo: u8, hi: u8| -> Vec<u8> {
        let n = r.below(4);
        (0..n).map(|_| lo + r.below((hi - lo + 1) as usize) as u8).collect()
    };
    if on(&mut r) {
        fi.open_type_head_flags = Some(bitl(&mut r, 0, 15));
    }
    if on(&mut r) {
        fi.open_type_os2_code_page_ranges = Some(bitl(&mut r, 0, 63));
    }
    if on(&mut r) {
        fi.open_type_os2_selection = Some(bitl(&mut r, 7, 9));
    }
    if on(&mut r) {
        fi.open_type_os2_type = Some(bitl(&mut r, 0, 9));
    }
    if on(&mut r) {
        fi.open_type_os2_unicode_ranges = Some(bitl(&mut r, 0, 127));
    }
    if on(&mut r) {
        fi.postscript_force_bold = Some(r.chance(1, 2));
    }
    if on(&mut r) {
        fi.postscript_is_fixed_pitch = Some(r.chance(1, 2));
    }
    if on(&mut r) {
        fi.postscript_blue_scale = Some(*r.pick(&[0.039625, 0.0, 1.0, 1e-17, 3e9, 0.1]));
    }
    if on(&mut r) {
        fi.open_type_head_created = Some("2020/01/31 23:59:59".to_string());
    }
    if on(&mut r) {
        let n = r.below(3);
        let mut ppem = 0;
        fi.open_type_gasp_range_records = Some(
            (0..n)
                .map(|_| {
                    ppem += r.below(20) as u32;
                    GaspRangeRecord {
                        range_max_ppem: ppem,
                        range_gasp_behavior: (0..r.below(3))
                            .map(|_| {
                                *r.pick(&[
                                    GaspBehavior::Gridfit,
                                    GaspBehavior::DoGray,
                                    GaspBehavior::SymmetricGridfit,
                                    GaspBehavior::SymmetricSmoothing,
                                ])
                            })
                            .collect(),
                    }
                })
                .collect(),
        );
    }
    if on(&mut r) {
        fi.open_type_name_records = Some(
            (0..r.below(3))
                .map(|_| NameRecord {
                    name_id: r.below(30) as u32,
                    platform_id: r.below(4) as u32,
                    encoding_id: r.below(4) as u32,
                    language_id: r.below(2000) as u32,
                    string: rstr(&mut r),
                })
                .collect(),
        );
    }
    if on(&mut r) {
        fi.open_type_os2_family_class =
            Some(Os2FamilyClass { class_id: r.below(15) as u8, subclass_id: r.below(16) as u8 });
    }
    if on(&mut r) {
        let mut p = Os2Panose::default();
        p.family_type = r.below(6) as u32;
        p.weight = r.below(12) as u32;
        p.x_height = r.below(8) as u32;
        fi.open_type_os2_panose = Some(p);
    }
    if on(&mut r) {
        fi.open_type_os2_width_class = Some(*r.pick(&[
            Os2WidthClass::UltraCondensed,
            Os2WidthClass::Normal,
            Os2WidthClass::SemiExpanded,
            Os2WidthClass::UltraExpanded,
        ]));
    }
    if on(&mut r) {
        fi.postscript_windows_character_set = Some(*r.pick(&[
            PostscriptWindowsCharacterSet::Ansi,
            PostscriptWindowsCharacterSet::Symbol,
            PostscriptWindowsCharacterSet::Oem,
        ]));
    }
    if on(&mut r) {
        fi.style_map_style_name = Some(
            r.pick(&[StyleMapStyle::Regular, StyleMapStyle::Italic, StyleMapStyle::Bold, StyleMapStyle::BoldItalic])
                .clone(),
        );
    }
    if on(&mut r) {
        fi.woff_metadata_copyright = Some(WoffMetadataCopyright {
            text: vec![WoffMetadataTextRecord {
                text: rstr(&mut r),
                language: if r.chance(1, 2) { Some("en".into()) } else { None },
                dir: if r.chance(1, 2) { Some(WoffAttributeDirection::LeftToRight) } else { None },
                class: None,
            }],
        });
    }
    if on(&mut r) {
        fi.woff_metadata_credits = Some(WoffMetadataCredits {
            credits: vec![WoffMetadataCredit {
                name: rstr(&mut r),
                url: Some(rstr(&mut r)),
                role: None,
                dir: Some(WoffAttributeDirection::RightToLeft),
                class: Some(rstr(&mut r)),
            }],
        });
    }
    if on(&mut r) {
        fi.woff_metadata_unique_id = Some(WoffMetadataUniqueId { id: rstr(&mut r) });
    }
    if on(&mut r) {
        fi.woff_metadata_vendor =
            Some(WoffMetadataVendor { name: rstr(&mut r), url: rstr(&mut r), dir: None, class: Some(rstr(&mut r)) });
    }
    fi
}

/// colours whose channels are exactly the doubles nearest to k/1000 (they survive the 3-decimal string)
fn color3(r: &mut Rng) -> Color {
    let mut ch = || (r.below(1001) as f64) / 1000.0;
    let (a, b, c, d) = (ch(), ch(), ch(), ch());
    Color::new(a, b, c, d).unwrap()
}

pub fn plain_num(r: &mut Rng) -> f64 {
    match r.below(6) {
        0 => 0.0,
        1 => r.range(-1000, 1000) as f64,
        2 => r.range(-4000, 4000) as f64 / 4.0,
        3 => r.range(-100000, 100000) as f64 / 1000.0,
        4 => *r.pick(&[1e300, -1e-17, 2147483648.5, -0.0, 0.1, 1.0 / 3.0]),
        _ => r.range(-20, 20) as f64,
    }
}

fn guide_rest(seed: &str) -> (Line, Option<Name>, Option<Color>) {
    let mut r = Rng::new(seed.parse::<u64>().unwrap() ^ 0x6d);
    let line = match r.below(3) {
        0 => Line::Vertical(plain_num(&mut r)),
        1 => Line::Horizontal(plain_num(&mut r)),
        _ => Line::Angle {
            x: plain_num(&mut r),
            y: plain_num(&mut r),
            degrees: *r.pick(&[0.0, 45.5, 90.0, 359.999, 360.0]),
        },
    };
    let name = if r.chance(1, 2) { Some(Name::new(&xname(&mut r, &["top", "a b", "\u{e9}"])).unwrap()) } else { None };
    let color = if r.chance(1, 2) { Some(color3(&mut r)) } else { None };
    (line, name, color)
}

pub fn simple_lib(r: &mut Rng) -> Dictionary {
    // inherited guard (C02): no line breaks in glyph-lib strings or keys
    let mut d = Dictionary::new();
    for _ in 0..r.below(3) {
        let k = r.pick(&["com.a", "k", "public.x", "z z", "<&>\"'", "\u{1F600}k", " sp ", "&amp;k"]).to_string();
        let v = match r.below(5) {
            0 => Value::String(r.pick(&["v", "", "a b", "<&>", "q\"uo'te", "\u{1F600}", " lead", "trail ", "&amp;lt;", "]]>"]).to_string()),
            1 => Value::Integer((r.range(-5, 5)).into()),
            2 => Value::Real(r.range(-40, 40) as f64 / 8.0),
            3 => Value::Boolean(r.chance(1, 2)),
            _ => Value::Array(vec![Value::Integer(1.into()), Value::String("s".into())]),
        };
        d.insert(k, v);
    }
    d
}

/// a legal sequence of point types (C11: `line` takes no off-curves, `curve` at most two, `qcurve` any number; a closed
/// contour is cyclic; an open one starts with `move` and may not end in off-curves)
pub fn contour_types(r: &mut Rng) -> Vec<PointType> {
    use PointType::*;
    let segment = |r: &mut Rng, out: &mut Vec<PointType>| match r.below(7) {
        0 | 1 => out.push(Line),
        2 => {
            // cubic: 0, 1 or 2 off-curves
            for _ in 0..r.below(3) {
                out.push(OffCurve);
            }
            out.push(Curve);
        }
        3 => {
            out.push(OffCurve);
            out.push(OffCurve);
            out.push(Curve);
        }
        _ => {
            // quadratic: 0..6 off-curves
            for _ in 0..r.below(7) {
                out.push(OffCurve);
            }
            out.push(QCurve);
        }
    };
    match r.below(10) {
        // all off-curve (closed, implied on-curve points)
        0 => (0..1 + r.below(5)).map(|_| OffCurve).collect(),
        // open
        1 | 2 => {
            let mut v = vec![Move];
            for _ in 0..r.below(4) {
                segment(r, &mut v);
            }
            v
        }
        // lines only (the common case in the other generators)
        3 => (0..1 + r.below(5)).map(|_| Line).collect(),
        // closed: 1..4 segments, then every rotation of the cyclic list is equally likely
        _ => {
            let mut v = Vec::new();
            for _ in 0..1 + r.below(4) {
                segment(r, &mut v);
            }
            let k = r.below(v.len());
            v.rotate_left(k);
            v
        }
    }
}

/// counts of the point types and the longest off-curve run that straddles the seam of a closed contour
pub fn point_stats<'a>(glyphs: impl Iterator<Item = &'a Glyph>) -> String {
    let (mut m, mut l, mut o, mut c, mut q, mut seam, mut alloff) = (0, 0, 0, 0, 0, 0usize, 0);
    for g in glyphs {
        for ct in &g.contours {
            for p in &ct.points {
                match p.typ {
                    PointType::Move => m += 1,
                    PointType::Line => l += 1,
                    PointType::OffCurve => o += 1,
                    PointType::Curve => c += 1,
                    PointType::QCurve => q += 1,
                }
            }
            let n = ct.points.len();
            let lead = ct.points.iter().take_while(|p| p.typ == PointType::OffCurve).count();
            if n > 0 && lead == n {
                alloff += 1;
            } else if n > 0 && ct.points[0].typ != PointType::Move {
                let trail = ct.points.iter().rev().take_while(|p| p.typ == PointType::OffCurve).count();
                if trail > 0 || lead > 0 {
                    // the run that the wrap-around loop of end_path has to count
                    seam = seam.max(lead + trail);
                }
            }
        }
    }
    format!("m{}.l{}.o{}.c{}.q{}.s{}.a{}", m, l, o, c, q, seam, alloff)
}

pub fn mk_glyph(name: &str, tok: &str) -> Glyph {
    let seed: u64 = tok.parse().unwrap();
    let mut r = Rng::new(seed ^ 0x61);
    let mut g = Glyph::new(name);
    if seed == 0 {
        return g;
    }
    let mut idn = 0;
    let mut fresh = |r: &mut Rng, force: bool| -> Option<Identifier> {
        if force || r.chance(1, 3) {
            idn += 1;
            Some(Identifier::new(&xid(r, idn)).unwrap())
        } else {
            None
        }
    };
    g.width = plain_num(&mut r);
    g.height = if r.chance(1, 3) { plain_num(&mut r) } else { 0.0 };
    if r.chance(1, 2) {
        // several code points, the first (primary) one not necessarily the smallest
        g.codepoints = Codepoints::new((0..1 + r.below(3)).map(|_| *r.pick(&['A', '\u{e9}', '\u{1F600}', '\u{0}', '\u{2206}', '\u{394}', 'a'])));
    }
    if r.chance(1, 4) {
        // inherited guard (C02): notes are trimmed on load; only notes without blanks at the ends
        g.note = Some(r.pick(&["note", "two words", "l1\nl2", "<&>", "q\"uo'te & <tag>", "\u{1F600} note", "&amp;lt;", "a ]]> b"]).to_string());
    }
    for _ in 0..r.below(3) {
        let withlib = r.chance(1, 3);
        let (line, nm, col) = guide_rest(&format!("{}", r.next() % 100000));
        let mut gl = Guideline::new(line, nm, col, fresh(&mut r, withlib));
        if withlib {
            gl.replace_lib(simple_lib(&mut r));
        }
        g.guidelines.push(gl);
    }
    for _ in 0..r.below(3) {
        let withlib = r.chance(1, 4);
        let mut a = Anchor::new(
            plain_num(&mut r),
            plain_num(&mut r),
            if r.chance(1, 2) { Some(Name::new(&xname(&mut r, &["top", "_bottom"])).unwrap()) } else { None },
            if r.chance(1, 3) { Some(color3(&mut r)) } else { None },
            fresh(&mut r, withlib),
        );
        if withlib {
            a.replace_lib(simple_lib(&mut r));
        }
        g.anchors.push(a);
    }
    for _ in 0..r.below(2) {
        let t = if r.chance(1, 2) {
            AffineTransform::default()
        } else {
            AffineTransform {
                x_scale: plain_num(&mut r),
                xy_scale: 0.5,
                yx_scale: -0.25,
                y_scale: 2.0,
                x_offset: plain_num(&mut r),
                y_offset: 0.0,
            }
        };
        g.components.push(Component::new(Name::new(&xname(&mut r, &["a", "B", "c.alt"])).unwrap(), t, fresh(&mut r, false)));
    }
    for _ in 0..r.below(3) {
        // the point-type sequence: segments (k off-curves + an on-curve point) of every legal kind, rotated so that an
        // off-curve run straddles the seam of a closed contour in every possible way (builder.rs end_path wraps
        // around); all-off-curve contours; open contours start with a move and end on an on-curve point
        let types = contour_types(&mut r);
        let mut pts = Vec::new();
        for typ in types {
            let withlib = r.chance(1, 8);
            let mut p = ContourPoint::new(
                plain_num(&mut r),
                plain_num(&mut r),
                typ.clone(),
                r.chance(1, 4) && typ != PointType::OffCurve,
                if r.chance(1, 6) { Some(Name::new(&xname(&mut r, &["p"])).unwrap()) } else { None },
                fresh(&mut r, withlib),
            );
            if withlib {
                p.replace_lib(simple_lib(&mut r));
            }
            pts.push(p);
        }
        let withlib = r.chance(1, 5);
        let mut c = Contour::new(pts, fresh(&mut r, withlib));
        if withlib {
            c.replace_lib(simple_lib(&mut r));
        }
        g.contours.push(c);
    }
    if r.chance(1, 6) {
        g.image = Some(
            Image::new(
                PathBuf::from(*r.pick(&["img.png", "a&b.png", ".backdrop.png", "q\"'<>.png", "\u{1F600}.png", " sp .png"])),
                if r.chance(1, 2) { Some(color3(&mut r)) } else { None },
                if r.chance(1, 2) {
                    AffineTransform::default()
                } else {
                    AffineTransform {
                        x_scale: 0.5,
                        xy_scale: plain_num(&mut r),
                        yx_scale: 0.0,
                        y_scale: -1.0,
                        x_offset: 10.0,
                        y_offset: plain_num(&mut r),
                    }
                },
            )
            .unwrap(),
        );
    }
    if r.chance(1, 3) {
        g.lib = simple_lib(&mut r);
    }
    g
}

// ------------------------------------------------------------------ building and dumping fonts

/// `Glyph == Glyph` compares the code points as a set; the order (the first is the primary value) matters too
pub fn glyph_eq(a: &Glyph, b: &Glyph) -> bool {
    a == b && a.codepoints.iter().eq(b.codepoints.iter())
}

/// a font with every optional part present, used to occupy a save target beforehand
pub fn rich_font() -> Font {
    let mut s = Spec::default();
    s.creator = Some(DEFAULT_CREATOR.to_string());
    s.fi = Some("4242".to_string());
    s.nums = vec![("ascender".to_string(), 800f64.to_bits())];
    s.upm = Some(1000f64.to_bits());
    s.lib.insert("stale.key".to_string(), Value::String("stale".to_string()));
    s.groups = vec![("stale.group".to_string(), vec!["stale".to_string()])];
    s.kerning = vec![("stale".to_string(), vec![("stale".to_string(), 77f64.to_bits())])];
    s.features = "feature stal { sub stale by stale; } stal;\n".to_string();
    let mut lib = Dictionary::new();
    lib.insert("stale.layer".to_string(), Value::Boolean(true));
    s.layers = vec![
        LayerSpec { name: "public.default".into(), color: Some([0.5f64.to_bits(); 4]), lib: lib.clone(), glyphs: vec![("stale".into(), "7".into()), ("a".into(), "8".into())] },
        LayerSpec { name: "stale layer".into(), color: None, lib, glyphs: vec![("stale".into(), "9".into())] },
        LayerSpec { name: "background".into(), color: None, lib: Dictionary::new(), glyphs: vec![("B".into(), "10".into())] },
    ];
    s.data = vec![("stale.txt".to_string(), b"stale".to_vec()), ("sub/stale.bin".to_string(), vec![1, 2, 3])];
    s.images = vec![("stale.png".to_string(), b"\x89PNG\r\n\x1a\nstale".to_vec())];
    build(&s)
}

/// puts the save target into one of the states a caller may find it in (the save must replace all of it)
pub fn prepare_target(dst: &Path, kind: &str) {
    rm_rf(dst);
    let wr = |rel: &str, b: &[u8]| {
        let p = dst.join(rel);
        std::fs::create_dir_all(p.parent().unwrap()).unwrap();
        std::fs::write(p, b).unwrap();
    };
    let pl = |body: &str| format!("<?xml version=\"1.0\" encoding=\"UTF-8\"?>\n<plist version=\"1.0\">{}</plist>\n", body);
    match kind {
        "empty" => std::fs::create_dir_all(dst).unwrap(),
        "ufo" | "ufojunk" => {
            rich_font().save(dst).expect("occupying the target");
            if kind == "ufojunk" {
                wr("notes.txt", b"left behind");
                wr("glyphs/orphan.glif", b"<?xml version=\"1.0\" encoding=\"UTF-8\"?>\n<glyph name=\"orphan\" format=\"2\"></glyph>\n");
                wr("data/.hidden", b"x");
            }
        }
        // the remains of a UFO without metainfo.plist
        "partial" => {
            wr("features.fea", b"feature stal { sub stale by stale; } stal;\n");
            wr("kerning.plist", pl("<dict><key>stale</key><dict><key>stale</key><integer>77</integer></dict></dict>").as_bytes());
            wr("groups.plist", pl("<dict><key>stale.group</key><array><string>stale</string></array></dict>").as_bytes());
            wr("lib.plist", pl("<dict><key>stale.key</key><string>stale</string></dict>").as_bytes());
            wr("fontinfo.plist", pl("<dict><key>familyName</key><string>Stale</string></dict>").as_bytes());
            wr("data/stale.txt", b"stale");
            wr("images/stale.png", b"\x89PNG\r\n\x1a\nstale");
            wr("glyphs/layerinfo.plist", pl("<dict><key>color</key><string>1,0,0,1</string></dict>").as_bytes());
            wr("glyphs.old/contents.plist", pl("<dict/>").as_bytes());
        }
        // a directory full of something else
        "junk" => {
            wr("notes.txt", b"not a font");
            wr("sub/readme.md", b"# x");
            wr("features.fea", b"# somebody's scratch file\n");
        }
        _ => {}
    }
}

pub fn build(s: &Spec) -> Font {
    build_h(s).0
}

fn outcome<T, E: std::fmt::Debug>(r: Result<T, E>) -> String {
    match r {
        Ok(_) => "ok".to_string(),
        Err(e) => format!("err:{}", variant(&format!("{:?}", e))),
    }
}

/// one call of the history on the real containers; the outcome as the API reports it
pub fn apply_op(font: &mut Font, op: &Op) -> String {
    let some = |b: bool| if b { "some".to_string() } else { "none".to_string() };
    match op {
        Op::NewLayer(n) => outcome(font.layers.new_layer(n)),
        Op::RenameLayer(a, n, ow) => outcome(font.layers.rename_layer(a, n, *ow)),
        Op::RemoveLayer(n) => some(font.layers.remove(n).is_some()),
        Op::Insert(l, n, tok) => match font.layers.get_mut(l) {
            Some(layer) => {
                layer.insert_glyph(mk_glyph(n, tok));
                "ok".to_string()
            }
            None => "nolayer".to_string(),
        },
        Op::RenameGlyph(l, a, n, ow) => match font.layers.get_mut(l) {
            Some(layer) => outcome(layer.rename_glyph(a, n, *ow)),
            None => "nolayer".to_string(),
        },
        Op::RemoveGlyph(l, n) => match font.layers.get_mut(l) {
            Some(layer) => some(layer.remove_glyph(n).is_some()),
            None => "nolayer".to_string(),
        },
        Op::Data(p, b) => outcome(font.data.insert(PathBuf::from(p), b.clone())),
        Op::Image(p, b) => outcome(font.images.insert(PathBuf::from(p), b.clone())),
    }
}

/// the font and, when the description carries a build history, the outcome of every call of it
pub fn build_h(s: &Spec) -> (Font, Vec<String>) {
    let mut font = Font::new();
    font.meta.creator = s.creator.clone();
    font.meta.format_version_minor = s.minor;
    let mut fi = match &s.fi {
        Some(seed) => info_rest(seed.parse().unwrap()),
        None => FontInfo::default(),
    };
    for (k, b) in &s.nums {
        let (base, idx) = match k.split_once('.') {
            Some((b, i)) => (b, Some(i)),
            None => (k.as_str(), None),
        };
        match idx {
            None => *scalar_mut(&mut fi, base) = Some(f64::from_bits(*b)),
            Some("n") => *list_mut(&mut fi, base) = Some(Vec::new()),
            Some(_) => list_mut(&mut fi, base).as_mut().unwrap().push(f64::from_bits(*b)),
        }
    }
    if let Some(u) = s.upm {
        fi.units_per_em = NonNegativeIntegerOrFloat::new(f64::from_bits(u));
    }
    if let Some(gs) = &s.guides {
        let mut v = Vec::new();
        for (id, lib, seed) in gs {
            let (line, nm, col) = guide_rest(seed);
            let mut g = Guideline::new(line, nm, col, id.as_ref().map(|i| Identifier::new(i).unwrap()));
            if let Some(l) = lib {
                g.replace_lib(l.clone());
            }
            v.push(g);
        }
        fi.guidelines = Some(v);
    }
    font.font_info = fi;
    font.lib = s.lib.clone();
    for (g, ns) in &s.groups {
        font.groups.insert(Name::new(g).unwrap(), ns.iter().map(|n| Name::new(n).unwrap()).collect());
    }
    for (a, m) in &s.kerning {
        let mut inner = BTreeMap::new();
        for (b, v) in m {
            inner.insert(Name::new(b).unwrap(), f64::from_bits(*v));
        }
        font.kerning.insert(Name::new(a).unwrap(), inner);
    }
    font.features = s.features.clone();
    if s.hist.is_empty() {
        for (i, l) in s.layers.iter().enumerate() {
            if i == 0 {
                if l.name != "public.default" {
                    font.layers.rename_layer("public.default", &l.name, false).unwrap();
                }
            } else {
                font.layers.new_layer(&l.name).unwrap();
            }
            let layer = font.layers.get_mut(&l.name).unwrap();
            layer.color = l.color.map(|c| {
                Color::new(f64::from_bits(c[0]), f64::from_bits(c[1]), f64::from_bits(c[2]), f64::from_bits(c[3]))
                    .unwrap()
            });
            layer.lib = l.lib.clone();
            for (n, tok) in &l.glyphs {
                layer.insert_glyph(mk_glyph(n, tok));
            }
        }
    }
    for (p, b) in &s.data {
        font.data.insert(PathBuf::from(p), b.clone()).unwrap();
    }
    for (p, b) in &s.images {
        font.images.insert(PathBuf::from(p), b.clone()).unwrap();
    }
    // the history runs on the real containers; colour and lib of the layers it leaves are set afterwards
    let mut results = Vec::new();
    if !s.hist.is_empty() {
        for (op, _) in &s.hist {
            results.push(apply_op(&mut font, op));
        }
        for l in &s.layers {
            if let Some(layer) = font.layers.get_mut(&l.name) {
                layer.color = l.color.map(|c| {
                    Color::new(f64::from_bits(c[0]), f64::from_bits(c[1]), f64::from_bits(c[2]), f64::from_bits(c[3]))
                        .unwrap()
                });
                layer.lib = l.lib.clone();
            }
        }
    }
    (font, results)
}

/// what the containers REPORT: per layer its name, `len()`, and the names `iter()` yields
pub fn reported(font: &Font) -> String {
    font.layers
        .iter()
        .map(|l| {
            format!(
                "{}:{}:{}",
                hexs(l.name().as_str()),
                l.len(),
                l.iter().map(|g| hexs(g.name().as_str())).collect::<Vec<_>>().join("+")
            )
        })
        .collect::<Vec<_>>()
        .join("|")
}

/// canonical description of a font value.  The parts this model does not look into (other font-info
/// fields, guideline geometry, glyphs) are named by the token `orig` has for the corresponding part of
/// `reference` when they are equal to it, and by a content hash otherwise.
pub fn describe_ref(font: &Font, orig: &Spec, reference: &Font) -> Spec {
    let mut s = Spec::default();
    s.opts = orig.opts;
    s.creator = font.meta.creator.clone();
    s.minor = font.meta.format_version_minor;
    let (nums, upm, rest) = split_info(&font.font_info);
    s.nums = nums;
    s.upm = upm;
    let (_, _, ref_rest) = split_info(&reference.font_info);
    s.fi = if rest == ref_rest && (orig.fi.is_some() || rest == FontInfo::default()) {
        orig.fi.clone()
    } else if rest == FontInfo::default() {
        None
    } else {
        Some(format!("X{:x}", fnv(format!("{:?}", rest).as_bytes())))
    };
    s.guides = font.font_info.guidelines.as_ref().map(|gs| {
        gs.iter()
            .enumerate()
            .map(|(i, g)| {
                let fresh = || format!("X{:x}", fnv(format!("{:?}{:?}{:?}", g.line, g.name, g.color).as_bytes()));
                let rg = reference.font_info.guidelines.as_ref().and_then(|o| o.get(i));
                let tok = match (rg, orig.guides.as_ref().and_then(|o| o.get(i))) {
                    (Some(rg), Some((_, _, tok))) if g.line == rg.line && g.name == rg.name && g.color == rg.color => {
                        tok.clone()
                    }
                    _ => fresh(),
                };
                (g.identifier().map(|i| i.as_str().to_string()), g.lib().cloned(), tok)
            })
            .collect()
    });
    s.lib = font.lib.clone();
    s.groups = font
        .groups
        .iter()
        .map(|(g, ns)| (g.to_string(), ns.iter().map(|n| n.to_string()).collect()))
        .collect();
    s.kerning = font
        .kerning
        .iter()
        .map(|(a, m)| (a.to_string(), m.iter().map(|(b, v)| (b.to_string(), v.to_bits())).collect()))
        .collect();
    s.features = font.features.clone();
    for l in font.layers.iter() {
        let ol = orig.layers.iter().find(|x| x.name == l.name().as_str());
        let rl = reference.layers.get(l.name());
        let mut glyphs = Vec::new();
        for g in l.iter() {
            let tok = match (
                ol.and_then(|o| o.glyphs.iter().find(|(n, _)| n == g.name().as_str())),
                rl.and_then(|r| r.get_glyph(g.name())),
            ) {
                (Some((_, tok)), Some(rg)) if glyph_eq(g, rg) => tok.clone(),
                _ => format!("X{:x}", fnv(format!("{:?}", g).as_bytes())),
            };
            glyphs.push((g.name().to_string(), tok));
        }
        s.layers.push(LayerSpec {
            name: l.name().to_string(),
            color: l.color.as_ref().map(|c| {
                let (a, b, cc, d) = c.channels();
                [a.to_bits(), b.to_bits(), cc.to_bits(), d.to_bits()]
            }),
            lib: l.lib.clone(),
            glyphs,
        });
    }
    s.data = store(font.data.iter());
    s.images = store(font.images.iter());
    s
}

/// description with content hashes for every un-modelled part
pub fn describe_fresh(font: &Font) -> Spec {
    describe_ref(font, &Spec::default(), &Font::new())
}

fn store<'a, E>(it: impl Iterator<Item = (&'a PathBuf, Result<std::sync::Arc<[u8]>, E>)>) -> Vec<(String, Vec<u8>)> {
    let mut v: Vec<(String, Vec<u8>)> = it
        .map(|(p, r)| (p.to_string_lossy().to_string(), r.map(|b| b.to_vec()).unwrap_or_else(|_| b"<error>".to_vec())))
        .collect();
    v.sort();
    v
}

pub fn paths(font: &Font) -> String {
    font.layers
        .iter()
        .map(|l| {
            format!(
                "{}:{}",
                hexs(&l.path().to_string_lossy()),
                l.iter()
                    .map(|g| hexs(&l.get_path(g.name()).map(|p| p.to_string_lossy().to_string()).unwrap_or_default()))
                    .collect::<Vec<_>>()
                    .join("+")
            )
        })
        .collect::<Vec<_>>()
        .join("|")
}

pub fn variant(dbg: &str) -> String {
    dbg.chars().take_while(|c| c.is_alphanumeric()).collect()
}

fn num_w(v: &Value) -> String {
    match v {
        Value::Integer(i) => format!("i{}", i.as_signed().map(|x| x.to_string()).unwrap_or_else(|| i.as_unsigned().unwrap().to_string())),
        Value::Real(r) => format!("r{}", f64bits(*r)),
        _ => "?".to_string(),
    }
}

/// what the writers put into the files, read with plist::Value (integer vs real is visible here)
pub fn written(dir: &Path) -> Vec<String> {
    let mut out = Vec::new();
    let mut files: Vec<String> = std::fs::read_dir(dir)
        .map(|rd| rd.map(|e| e.unwrap().file_name().to_string_lossy().to_string()).collect())
        .unwrap_or_default();
    files.sort();
    out.push(format!("files={}", files.iter().map(|f| hexs(f)).collect::<Vec<_>>().join("+")));
    let rd = |name: &str| Value::from_file(dir.join(name)).ok();
    match rd("metainfo.plist").and_then(|v| v.into_dictionary()) {
        Some(d) => out.push(format!(
            "mw={}.{}.{}",
            d.get("creator").and_then(|c| c.as_string()).map(hexs).unwrap_or("~".into()),
            d.get("formatVersion").and_then(|c| c.as_signed_integer()).unwrap_or(-1),
            d.get("formatVersionMinor").and_then(|c| c.as_signed_integer()).unwrap_or(0)
        )),
        None => out.push("mw=?".into()),
    }
    let mut nw = Vec::new();
    let mut uw = "~".to_string();
    if let Some(d) = rd("fontinfo.plist").and_then(|v| v.into_dictionary()) {
        for k in SCALARS {
            if let Some(v) = d.get(k) {
                nw.push(format!("{}:{}", k, num_w(v)));
            }
        }
        for (k, _, _) in LISTS {
            if let Some(Value::Array(a)) = d.get(k) {
                nw.push(format!("{}.n:i{}", k, a.len()));
                for (i, v) in a.iter().enumerate() {
                    nw.push(format!("{}.{}:{}", k, i, num_w(v)));
                }
            }
        }
        if let Some(v) = d.get("unitsPerEm") {
            uw = num_w(v);
        }
    }
    out.push(format!("nw={}", nw.join(";")));
    out.push(format!("uw={}", uw));
    let mut kw = Vec::new();
    if let Some(d) = rd("kerning.plist").and_then(|v| v.into_dictionary()) {
        let mut ks: Vec<&String> = d.keys().collect();
        ks.sort();
        for a in ks {
            if let Some(Value::Dictionary(m)) = d.get(a) {
                let mut bs: Vec<&String> = m.keys().collect();
                bs.sort();
                kw.push(format!(
                    "{}:{}",
                    hexs(a),
                    bs.iter().map(|b| format!("{}/{}", hexs(b), num_w(m.get(b).unwrap()))).collect::<Vec<_>>().join("+")
                ));
            }
        }
    }
    out.push(format!("kw={}", kw.join(";")));
    let mut lc = Vec::new();
    let mut cw = Vec::new();
    if let Some(Value::Array(a)) = rd("layercontents.plist") {
        for e in a {
            if let Value::Array(p) = e {
                let n = p.first().and_then(|x| x.as_string()).unwrap_or("?").to_string();
                let d = p.get(1).and_then(|x| x.as_string()).unwrap_or("?").to_string();
                lc.push(format!("{}:{}", hexs(&n), hexs(&d)));
                let li = Value::from_file(dir.join(&d).join("layerinfo.plist")).ok().and_then(|v| v.into_dictionary());
                cw.push(match li {
                    None => "~".to_string(),
                    Some(li) => format!(
                        "{}.{}",
                        li.get("color").and_then(|c| c.as_string()).map(hexs).unwrap_or("~".into()),
                        if li.contains_key("lib") { 1 } else { 0 }
                    ),
                });
            }
        }
    }
    out.push(format!("lc={}", lc.join(";")));
    out.push(format!("cw={}", cw.join("|")));
    out.push(format!(
        "fw={}",
        std::fs::read(dir.join("features.fea")).map(|b| hex(&b)).unwrap_or("~".into())
    ));
    out
}

/// line-ending normal form: every run of CRs directly in front of an LF is dropped
/// (`replace("\r\n", "\n")` is not idempotent: CR CR LF -> CR LF -> LF)
pub fn lf_norm(s: &str) -> String {
    let cs: Vec<char> = s.chars().collect();
    let mut out = String::new();
    let mut i = 0;
    while i < cs.len() {
        if cs[i] == '\r' {
            let mut j = i;
            while j < cs.len() && cs[j] == '\r' {
                j += 1;
            }
            if j < cs.len() && cs[j] == '\n' {
                i = j;
                continue;
            }
        }
        out.push(cs[i]);
        i += 1;
    }
    out
}

fn close(a: f64, b: f64) -> bool {
    if a == b || (a.is_nan() && b.is_nan()) {
        return true;
    }
    (a - b).abs() <= 1e-9 * a.abs().max(b.abs())
}

/// the harness' own field-by-field comparison (tolerances of DESIGN section 8); the driver recomputes it exactly
pub fn compare(a: &Spec, b: &Spec) -> String {
    let mut d = Vec::new();
    if b.creator.as_deref() != Some(DEFAULT_CREATOR) {
        d.push("creator");
    }
    if a.fi != b.fi {
        d.push("fontinfo");
    }
    let numeq = |x: &Vec<(String, u64)>, y: &Vec<(String, u64)>| {
        x.len() == y.len()
            && x.iter().zip(y.iter()).all(|(p, q)| {
                p.0 == q.0 && (if p.0.ends_with(".n") { p.1 == q.1 } else { close(f64::from_bits(p.1), f64::from_bits(q.1)) })
            })
    };
    if !numeq(&a.nums, &b.nums) {
        d.push("numbers");
    }
    match (a.upm, b.upm) {
        (None, None) => {}
        (Some(x), Some(y)) if close(f64::from_bits(x), f64::from_bits(y)) => {}
        _ => d.push("upm"),
    }
    let gtok = |s: &Spec| font_tokens(s)[4].clone();
    if gtok(a) != gtok(b) {
        d.push("guidelines");
    }
    if a.lib != b.lib {
        d.push("lib");
    }
    if a.groups != b.groups {
        d.push("groups");
    }
    let keq = a.kerning.len() == b.kerning.len()
        && a.kerning.iter().zip(b.kerning.iter()).all(|(p, q)| {
            p.0 == q.0
                && p.1.len() == q.1.len()
                && p.1.iter().zip(q.1.iter()).all(|(x, y)| x.0 == y.0 && close(f64::from_bits(x.1), f64::from_bits(y.1)))
        });
    if !keq {
        d.push("kerning");
    }
    if lf_norm(&a.features) != lf_norm(&b.features) {
        d.push("features");
    }
    let leq = a.layers.len() == b.layers.len()
        && a.layers.iter().zip(b.layers.iter()).all(|(p, q)| {
            let ceq = match (&p.color, &q.color) {
                (None, None) => true,
                (Some(x), Some(y)) => (0..4).all(|i| {
                    (f64::from_bits(x[i]) * 1000.0 - f64::from_bits(y[i]) * 1000.0).abs() <= 0.5 + 1e-9
                }),
                _ => false,
            };
            p.name == q.name && ceq && p.lib == q.lib && p.glyphs == q.glyphs
        });
    if !leq {
        d.push("layers");
    }
    if a.data != b.data {
        d.push("data");
    }
    if a.images != b.images {
        d.push("images");
    }
    if d.is_empty() {
        "ok".to_string()
    } else {
        d.join("+")
    }
}

pub fn options(s: &Spec) -> WriteOptions {
    let o = WriteOptions::default().indent(if s.opts.0 == 't' { WriteOptions::TAB } else { WriteOptions::SPACE }, s.opts.1);
    o.quote_char(if s.opts.2 == 's' { QuoteChar::Single } else { QuoteChar::Double })
}

pub fn observe(toks: &[&str], scratch: &Path) -> String {
    let spec = parse_spec(toks);
    let (font, hres) = match guarded(|| build_h(&spec)) {
        Ok(f) => f,
        Err(m) => return format!("build=panic:{}", hexs(&m)),
    };
    // the description of the font as built (sorted maps, as the getters show them)
    let built = describe_ref(&font, &spec, &font);
    let dst = scratch.join("c01.ufo");
    prepare_target(&dst, &spec.target);
    let opts = options(&spec);
    let mut out = vec![
        format!("pre={}", paths(&font)),
        format!("pt={}", point_stats(font.layers.iter().flat_map(|l| l.iter()))),
        format!("rep={}", reported(&font)),
        format!("hr={}", hres.join(";")),
    ];
    let save = match guarded(|| font.save_with_options(&dst, &opts)) {
        Ok(Ok(())) => "ok".to_string(),
        Ok(Err(e)) => format!("err:{}", variant(&format!("{:?}", e))),
        Err(_) => "panic".to_string(),
    };
    out.push(format!("save={}", save));
    if save != "ok" {
        rm_rf(&dst);
        out.push("load=skipped".into());
        return out.join(" ");
    }
    let w = written(&dst);
    match guarded(|| Font::load(&dst)) {
        Ok(Ok(f)) => {
            out.push("load=ok".into());
            out.extend(w);
            let d = describe_ref(&f, &spec, &font);
            out.extend(font_tokens(&d));
            out.push(format!("post={}", paths(&f)));
            out.push(format!("cmp={}", compare(&built, &d)));
        }
        Ok(Err(e)) => {
            out.push(format!("load=err:{}", variant(&format!("{:?}", e))));
            out.extend(w);
        }
        Err(_) => {
            out.push("load=panic".into());
            out.extend(w);
        }
    }
    rm_rf(&dst);
    out.join(" ")
}

// ------------------------------------------------------------------ generators

fn ulp(x: f64, k: i64) -> f64 {
    f64::from_bits((x.to_bits() as i64 + k) as u64)
}

/// boundary-directed number pool (model: `RT.kernWrite`, `RT.infoWrite`, `RT.upmWrite`)
pub fn num_pool(r: &mut Rng, tiny: bool) -> f64 {
    let eps = f64::EPSILON;
    let near = |r: &mut Rng, c: f64| -> f64 {
        if c == 0.0 {
            return c;
        }
        match r.below(7) {
            0 => c,
            1 => ulp(c, 1),
            2 => ulp(c, -1),
            3 => ulp(c, 2),
            4 => c + eps,
            5 => c - eps,
            _ => ulp(c, -2),
        }
    };
    let v = match r.below(14) {
        0 => r.range(-2000, 2000) as f64,
        1 => r.range(-8000, 8000) as f64 / 8.0,
        2 => {
            let c = *r.pick(&[1.0, -1.0, 2.0, -2.0, 3.0, 1000.0, -750.0, 0.5, -0.5, 1.5, 2.5, -2.5]);
            near(r, c)
        }
        3 => {
            let c = *r.pick(&[2147483647.0, 2147483648.0, -2147483648.0, -2147483649.0, 2147483646.0, 2147483649.0]);
            near(r, c)
        }
        4 => *r.pick(&[3e9, -3e9, 1e10, 4294967296.0, 9007199254740992.0, -9007199254740993.0]),
        5 => *r.pick(&[1e300, -1e300, 1.7976931348623157e308, 12345.678e200]),
        6 => *r.pick(&[0.0, -0.0]),
        7 => {
            let c = *r.pick(&[eps, -eps, 2.0 * eps, 1e-15, -1e-15]);
            near(r, c)
        }
        8 => r.range(-1000000, 1000000) as f64 / 1000.0,
        9 => *r.pick(&[0.1, -0.3, 1.0 / 3.0, 2147483647.5, -2147483648.5, 2147483648.5, 0.9999999999, 1.000000001]),
        10 => (r.range(-1000, 1000) as f64) + *r.pick(&[eps, -eps, 1e-12, -1e-12, 1e-10]),
        11 => {
            let c = r.range(-5, 5) as f64 * 100.0;
            near(r, c)
        }
        12 => *r.pick(&[2147483647.0 + 0.25, -2147483648.0 - 0.25, 2147483646.75]),
        _ => r.range(-100, 100) as f64,
    };
    // non-zero magnitudes <= epsilon come back as 0 (recorded finding): only when asked for
    if v != 0.0 && v.abs() <= eps && !tiny {
        return 1.0 + eps;
    }
    v
}

fn tiny_num(r: &mut Rng) -> f64 {
    *r.pick(&[1e-17, -1e-17, 5e-324, f64::EPSILON / 2.0, -1e-300, 2.0e-16])
}

fn pv_gen(r: &mut Rng, depth: usize) -> Value {
    let k = if depth == 0 { r.below(6) } else { r.below(9) };
    match k {
        0 => Value::String(
            r.pick(&["", " ", "  \n ", "a\nb", "v", "\u{e9}\u{4e2d}\u{1F600}", "<&>\"']]>", " lead", "trail\t", "l1\nl2\n"])
                .to_string(),
        ),
        1 => Value::Integer(match r.below(5) {
            0 => 0i64.into(),
            1 => i64::MIN.into(),
            2 => u64::MAX.into(),
            3 => r.range(-100, 100).into(),
            _ => 2147483648i64.into(),
        }),
        2 => Value::Real(match r.below(4) {
            0 => num_pool(r, true),
            1 => tiny_num(r),
            2 => -0.0,
            _ => r.range(-1000, 1000) as f64 / 16.0,
        }),
        3 => Value::Boolean(r.chance(1, 2)),
        4 => Value::Data((0..r.below(5)).map(|_| r.below(256) as u8).collect()),
        5 => Value::Date(
            plist::Date::from_xml_format(*r.pick(&["2020-01-02T03:04:05Z", "1970-01-01T00:00:00Z", "2099-12-31T23:59:59Z"]))
                .unwrap(),
        ),
        6 => Value::Array((0..r.below(4)).map(|_| pv_gen(r, depth - 1)).collect()),
        _ => Value::Dictionary(dict_gen(r, depth - 1)),
    }
}

fn dict_gen(r: &mut Rng, depth: usize) -> Dictionary {
    let mut d = Dictionary::new();
    let n = r.below(5);
    for _ in 0..n {
        let k = r.pick(&["zz", "a", "com.x.y", "k\nl", " ", "\u{e9}", "B", "public.glyphOrder", "<k>", "a b", "q\"k'", "\u{1F600}", "&amp;k", " k ", "R&D"]).to_string();
        let v = pv_gen(r, depth);
        d.insert(k, v);
    }
    d
}

/// groups of names whose default file names coincide before the clash counter is applied (illegal characters
/// become `_`, a capital gets `_` appended, the clash test lower-cases).  By case class of the letters they hold:
/// non-ASCII capitals; TITLECASE letters (category Lt: neither upper- nor lowercase, yet changed by
/// `to_lowercase`) without any capital; titlecase next to the lowercase form of the same letter; lowercase only;
/// uppercase only; mixed
pub const CLASHES: [&[&str]; 17] = [
    &["\u{c4}*", "\u{c4}?"],
    &[".\u{d6}rtchen", "_\u{d6}rtchen"],
    &["\u{c9}", "\u{e9}_"],
    &["A*", "A?", "a__"],
    &["\u{3a9}|x", "\u{3a9}\"x", "\u{3a9}<x"],
    &["\u{1e9e}", "\u{df}_"],
    // titlecase, no capital anywhere
    &["\u{1c5}_alt", "\u{1c5}:alt", "\u{1c5}*alt"],
    &["\u{1cb}/sketch", "\u{1cb}_sketch"],
    &["\u{1f88}?", "\u{1f88}_", "\u{1f88}|"],
    &["x\u{1f2}<", "x\u{1f2}>"],
    // titlecase against the lowercase letter it folds to, and against a capital
    &["\u{1c5}", "\u{1c6}"],
    &["\u{1c8}x", "\u{1c9}x", "\u{1c8}x:"],
    &["\u{1c5}A*", "\u{1c5}A?", "\u{1c6}a__"],
    // lowercase only, uppercase only, mixed
    &["a*b", "a?b", "a_b"],
    &["AB", "a_b_"],
    &["Q*", "Q?", "Q|"],
    &["aB*c", "aB?c", "ab_?c"],
];
const GNAMES: [&str; 10] = ["a", "A", "B", "a_", ".notdef", "A_B.alt", "\u{e9}", "con", "space", "a b"];
const KNAMES: [&str; 8] = ["A", "B", "public.kern1.O", "public.kern2.O", "a b", "\u{e9}", "V", "public.kern1.X"];

pub fn gen_spec(r: &mut Rng, flavour: usize) -> Spec {
    let mut s = Spec::default();
    s.opts = (
        if r.chance(1, 2) { 't' } else { 's' },
        *r.pick(&[1usize, 1, 2, 4, 0, 8]),
        if r.chance(1, 3) { 's' } else { 'd' },
    );
    s.target = r.pick(&["absent", "absent", "empty", "ufo", "ufojunk", "partial", "junk"]).to_string();
    s.creator = match r.below(5) {
        0 => None,
        1 => Some(r.pick(&["com.other.tool", "R&D <tool> \"x\" 'y' \u{1F600}", " blank ", "&amp;"]).to_string()),
        2 => Some(String::new()),
        _ => Some(DEFAULT_CREATOR.to_string()),
    };
    s.minor = *r.pick(&[0u32, 0, 0, 1, 7]);
    let tiny = flavour == 7 && r.chance(1, 2);
    // font info
    if r.chance(2, 3) {
        if r.chance(2, 3) {
            s.fi = Some(format!("{}", 1 + r.next() % 1_000_000));
        }
        let dense = r.chance(1, 4);
        let mut fi = FontInfo::default();
        for k in SCALARS {
            if r.chance(if dense { 9 } else { 2 }, 10) {
                *scalar_mut(&mut fi, k) = Some(num_pool(r, false));
            }
        }
        for (k, max, pairs) in LISTS {
            if r.chance(if dense { 7 } else { 1 }, 10) {
                let mut n = *r.pick(&[0usize, 2, 4, max, 1, 3]);
                if pairs && n % 2 == 1 {
                    n += 1;
                }
                *list_mut(&mut fi, k) = Some((0..n.min(max)).map(|_| num_pool(r, false)).collect());
            }
        }
        if tiny && r.chance(1, 2) {
            fi.ascender = Some(tiny_num(r));
        }
        let (nums, _, _) = split_info(&fi);
        s.nums = nums;
        if r.chance(1, 2) {
            let mut v = num_pool(r, false).abs();
            if tiny && r.chance(1, 2) {
                v = tiny_num(r).abs();
            }
            s.upm = Some(v.to_bits());
        }
        if r.chance(1, 3) {
            let n = r.below(4);
            let mut gs = Vec::new();
            for i in 0..n {
                let lib = if r.chance(1, 2) { Some(dict_gen(r, 2)) } else { None };
                let id = if lib.is_some() || r.chance(1, 2) { Some(xid(r, i)) } else { None };
                gs.push((id, lib, format!("{}", r.next() % 100000)));
            }
            s.guides = Some(gs);
        }
    }
    if r.chance(1, 2) {
        s.lib = dict_gen(r, 3);
    }
    if r.chance(1, 2) {
        let mut m: BTreeMap<String, Vec<String>> = BTreeMap::new();
        let mut used1 = Vec::new();
        let mut used2 = Vec::new();
        for _ in 0..r.below(4) {
            let g = xname(r, &["public.kern1.O", "public.kern2.O", "public.kern1.X", "grp", "a b", "\u{e9}", " ", "public.kern1.R&D", "public.kern2.<q\"'>"]);
            if m.contains_key(&g) {
                continue;
            }
            let mut ns = Vec::new();
            for _ in 0..r.below(4) {
                let n = xname(r, &GNAMES);
                let used = if g.starts_with("public.kern1.") {
                    &mut used1
                } else if g.starts_with("public.kern2.") {
                    &mut used2
                } else {
                    ns.push(n);
                    continue;
                };
                if !used.contains(&n) {
                    used.push(n.clone());
                    ns.push(n);
                }
            }
            m.insert(g, ns);
        }
        s.groups = m.into_iter().collect();
    }
    if r.chance(2, 3) {
        let mut m: BTreeMap<String, BTreeMap<String, u64>> = BTreeMap::new();
        for _ in 0..r.below(5) {
            let a = xname(r, &KNAMES);
            let e = m.entry(a).or_default();
            for _ in 0..r.below(4) {
                let v = if tiny && r.chance(1, 3) { tiny_num(r) } else { num_pool(r, false) };
                e.insert(xname(r, &KNAMES), v.to_bits());
            }
        }
        s.kerning = m.into_iter().map(|(a, e)| (a, e.into_iter().collect())).collect();
    }
    if r.chance(1, 2) {
        let n = 1 + r.below(6);
        s.features = (0..n)
            .map(|_| *r.pick(&["feature kern {", "\r\n", "\n", "\r", "} kern;", "# \u{e9}", " ", "\r\r\n", "\n\r", "& < > \" '", "\u{1F600}", "&amp;", "\t"]))
            .collect();
    }
    // layers
    let nl = 1 + *r.pick(&[0usize, 0, 1, 2, 3, 4]);
    let lnames = ["background", "a", "A", "Layer 2", "\u{e9}", "con", "glyphs", "x.y"];
    let mut used = Vec::new();
    // one font in five takes the names of its other layers from ONE group of clashing names, in a random order
    let lgrp: Option<&[&str]> = if r.chance(1, 5) { Some(*r.pick(&CLASHES)) } else { None };
    for i in 0..nl {
        let name = if i == 0 {
            if r.chance(1, 3) { "fore".to_string() } else { "public.default".to_string() }
        } else {
            let n = if let (Some(grp), true) = (lgrp, r.chance(3, 4)) {
                r.pick(grp).to_string()
            } else if r.chance(1, 6) {
                // layer names whose directories coincide before the clash counter
                let grp = *r.pick(&CLASHES);
                grp[i % grp.len()].to_string()
            } else {
                xname(r, &lnames)
            };
            if used.contains(&n) {
                continue;
            }
            n
        };
        used.push(name.clone());
        let color = if r.chance(1, 2) {
            let mut ch = |r: &mut Rng| -> u64 {
                let v: f64 = match r.below(6) {
                    0 => 0.0,
                    1 => 1.0,
                    2 => r.below(1001) as f64 / 1000.0,
                    3 => *r.pick(&[0.0625, 0.1875, 0.3125, 0.0005, 0.9995, 0.99951, 0.00049, 0.5]),
                    4 => (r.next() % 1_000_000_007) as f64 / 1_000_000_007.0,
                    _ => r.below(256) as f64 / 255.0,
                };
                v.to_bits()
            };
            Some([ch(r), ch(r), ch(r), ch(r)])
        } else {
            None
        };
        let lib = if r.chance(1, 3) { dict_gen(r, 2) } else { Dictionary::new() };
        let mut glyphs: BTreeMap<String, String> = BTreeMap::new();
        for _ in 0..r.below(5) {
            let seed = if r.chance(1, 5) { 0 } else { 1 + r.next() % 1_000_000 };
            glyphs.insert(xname(r, &GNAMES), format!("{}", seed));
        }
        // names that sanitise to one file name (illegal characters, leading period, case) and hold
        // non-ASCII capitals: the second needs a clash counter, whatever the case folding says
        if r.chance(1, 4) {
            for n in *r.pick(&CLASHES) {
                glyphs.insert(n.to_string(), format!("{}", 1 + r.next() % 1_000_000));
            }
        }
        s.layers.push(LayerSpec { name, color, lib, glyphs: glyphs.into_iter().collect() });
    }
    if r.chance(1, 4) {
        let mut m: BTreeMap<String, Vec<u8>> = BTreeMap::new();
        for _ in 0..1 + r.below(3) {
            let p = r
                .pick(&[
                    "a.txt", "sub/b.bin", "sub/deeper/c", "com.x.plist", "\u{e9}",
                    // hidden files and directories, at the top and nested
                    ".editorstate", "com.example.tool/.lock", ".cache/x.bin", "a/.b/c", "..hidden", ".DS_Store", "dir/.hidden/deep/f",
                    // XML-hostile and unusual names (they only ever appear in the file system)
                    "a&b.txt", "x<y>.bin", "q\"uo'te.txt", " lead.txt", "trail ", "\u{1F600}.bin", "sp ace/in dir/f g",
                ])
                .to_string();
            m.insert(p, (0..r.below(6)).map(|_| r.below(256) as u8).collect());
        }
        // a key may not be a prefix directory of another (store rule)
        s.data = m.into_iter().collect();
    }
    if r.chance(1, 5) {
        let png = b"\x89PNG\r\n\x1a\n".to_vec();
        let mut m: BTreeMap<String, Vec<u8>> = BTreeMap::new();
        for _ in 0..1 + r.below(2) {
            let mut b = png.clone();
            b.extend((0..r.below(4)).map(|_| r.below(256) as u8));
            m.insert(r.pick(&["img.png", "B.png", "x", ".backdrop.png", "..hidden.png", "a&b.png", "sp ace.png", "q'\".png", "\u{1F600}.png", ".x"]).to_string(), b);
        }
        s.images = m.into_iter().collect();
    }
    s
}

// ------------------------------------------------------------------ build histories (successful and refused calls)

/// names `Name::new` refuses: empty, C0 control, DEL, C1 control
const BADNAMES: [&str; 6] = ["", "\u{1}", "a\nb", "x\u{7f}", "\u{85}y", "\t"];

fn name_ok(s: &str) -> bool {
    !s.is_empty() && !s.chars().any(|c| (c as u32) < 0x20 || (0x7f..=0x9f).contains(&(c as u32)))
}

/// the DOCUMENTED behaviour of the containers on names only (no file names): a refused call changes nothing
#[derive(Clone)]
pub struct Sim {
    pub layers: Vec<(String, BTreeMap<String, String>)>,
    pub data: Vec<String>,
}

impl Sim {
    pub fn new(s: &Spec) -> Sim {
        Sim { layers: vec![("public.default".to_string(), BTreeMap::new())], data: s.data.iter().map(|e| e.0.clone()).collect() }
    }
    fn pos(&self, n: &str) -> Option<usize> {
        self.layers.iter().position(|l| l.0 == n)
    }
    pub fn apply(&mut self, op: &Op) -> String {
        let e = |v: &str| format!("err:{}", v);
        match op {
            Op::NewLayer(n) => {
                if n == "public.default" {
                    e("ReservedName")
                } else if self.pos(n).is_some() {
                    e("Duplicate")
                } else if !name_ok(n) {
                    e("Invalid")
                } else {
                    self.layers.push((n.clone(), BTreeMap::new()));
                    "ok".into()
                }
            }
            Op::RenameLayer(a, n, ow) => {
                if !*ow && self.pos(n).is_some() {
                    e("Duplicate")
                } else if self.pos(a).is_none() {
                    e("Missing")
                } else if n == "public.default" && self.layers[0].0 != *a {
                    e("ReservedName")
                } else if self.layers[0].0 == *n && self.layers[0].0 != *a {
                    e("Duplicate")
                } else if !name_ok(n) {
                    e("Invalid")
                } else {
                    if *ow && a != n {
                        if let Some(i) = self.pos(n) {
                            self.layers.remove(i);
                        }
                    }
                    let i = self.pos(a).unwrap();
                    self.layers[i].0 = n.clone();
                    "ok".into()
                }
            }
            Op::RemoveLayer(n) => match self.pos(n) {
                Some(i) if i > 0 => {
                    self.layers.remove(i);
                    "some".into()
                }
                _ => "none".into(),
            },
            Op::Insert(l, n, tok) => match self.pos(l) {
                Some(i) => {
                    self.layers[i].1.insert(n.clone(), tok.clone());
                    "ok".into()
                }
                None => "nolayer".into(),
            },
            Op::RenameGlyph(l, a, n, ow) => match self.pos(l) {
                Some(i) => {
                    let g = &mut self.layers[i].1;
                    if !*ow && g.contains_key(n) {
                        e("Duplicate")
                    } else if !g.contains_key(a) {
                        e("Missing")
                    } else if !name_ok(n) {
                        e("Invalid")
                    } else {
                        let tok = g.remove(a).unwrap();
                        g.insert(n.clone(), tok);
                        "ok".into()
                    }
                }
                None => "nolayer".into(),
            },
            Op::RemoveGlyph(l, n) => match self.pos(l) {
                Some(i) => (if self.layers[i].1.remove(n).is_some() { "some" } else { "none" }).into(),
                None => "nolayer".into(),
            },
            Op::Data(p, _) => {
                if p.is_empty() {
                    e("EmptyPath")
                } else if p.starts_with('/') {
                    e("PathIsAbsolute")
                } else if self.data.iter().any(|k| p.starts_with(&format!("{}/", k)) || k.starts_with(&format!("{}/", p))) {
                    e("DirUnderFile")
                } else {
                    self.data.push(p.clone());
                    "ok".into()
                }
            }
            Op::Image(p, b) => {
                if p.is_empty() {
                    e("EmptyPath")
                } else if p.starts_with('/') {
                    e("PathIsAbsolute")
                } else if p.contains('/') {
                    e("Subdir")
                } else if !b.starts_with(b"\x89PNG\r\n\x1a\n") {
                    e("InvalidImage")
                } else {
                    "ok".into()
                }
            }
        }
    }
}

fn step(sim: &mut Sim, h: &mut Vec<(Op, String)>, op: Op) {
    let o = sim.apply(&op);
    h.push((op, o));
}

/// one call that the documented behaviour REFUSES in the present state (nothing is emitted when three draws
/// all happen to be acceptable calls)
fn refused_op(r: &mut Rng, sim: &mut Sim, h: &mut Vec<(Op, String)>, prefer: Option<&str>) {
    for _ in 0..3 {
        let li = match prefer.and_then(|n| sim.pos(n)) {
            Some(i) if r.chance(3, 4) => i,
            _ => r.below(sim.layers.len()),
        };
        let lname = sim.layers[li].0.clone();
        let gnames: Vec<String> = sim.layers[li].1.keys().cloned().collect();
        let bad = r.pick(&BADNAMES).to_string();
        let ow = r.chance(1, 2);
        let other = sim.layers[r.below(sim.layers.len())].0.clone();
        let op = match r.below(16) {
            // rename_glyph: invalid new name (most often: the call mutates in several steps), duplicate, missing
            0 | 1 | 2 | 3 if !gnames.is_empty() => Op::RenameGlyph(lname, r.pick(&gnames).clone(), bad, ow),
            4 if !gnames.is_empty() => Op::RenameGlyph(lname, r.pick(&gnames).clone(), r.pick(&gnames).clone(), false),
            // (the new name of a call refused for a missing old one may be bad, free, or an EXISTING one with overwrite)
            5 => {
                let n = match (r.below(3), gnames.is_empty()) {
                    (0, _) => bad,
                    (1, false) => r.pick(&gnames).clone(),
                    _ => "fresh".to_string(),
                };
                Op::RenameGlyph(lname, "no.such".into(), n, ow)
            }
            // rename_layer: invalid, duplicate, missing, reserved / onto the default layer
            6 | 7 => Op::RenameLayer(lname, bad, ow),
            8 => Op::RenameLayer(lname, other, false),
            9 => {
                let n = match r.below(3) {
                    0 => bad,
                    1 => other,
                    _ => "fresh".to_string(),
                };
                Op::RenameLayer("no.such".into(), n, ow)
            }
            10 if li > 0 => {
                Op::RenameLayer(lname, if ow { "public.default".into() } else { sim.layers[0].0.clone() }, true)
            }
            // new_layer: invalid, duplicate, reserved
            11 => Op::NewLayer(bad),
            12 => Op::NewLayer(if ow { other } else { "public.default".into() }),
            // removals that find nothing (the default layer cannot be removed)
            13 => {
                if ow {
                    Op::RemoveLayer(if r.chance(1, 2) { "no.such".into() } else { sim.layers[0].0.clone() })
                } else {
                    Op::RemoveGlyph(lname, "no.such".into())
                }
            }
            // stores
            14 => {
                let p = match (r.below(3), sim.data.first()) {
                    (0, _) => String::new(),
                    (1, Some(k)) => format!("{}/below", k),
                    _ => "/abs/x.bin".to_string(),
                };
                Op::Data(p, vec![1, 2, 3])
            }
            15 => {
                let png = b"\x89PNG\r\n\x1a\n".to_vec();
                match r.below(4) {
                    0 => Op::Image(String::new(), png),
                    1 => Op::Image("/abs.png".into(), png),
                    2 => Op::Image("sub/x.png".into(), png),
                    _ => Op::Image("notpng.png".into(), b"GIF89a".to_vec()),
                }
            }
            _ => continue,
        };
        let o = sim.clone().apply(&op);
        if !o.starts_with("err") && o != "none" {
            continue;
        }
        step(sim, h, op);
        return;
    }
}

/// replaces the straight construction of the layers of `s` by a history of container calls that ends in the same
/// layers: inserts in a random order, detours (temporary names + rename, overwriting insert / rename, remove and
/// re-insert, a scratch layer that is removed again), and refused calls of every kind in between.  `s.layers` is
/// then what the documented behaviour leaves (names in the order the containers iterate).
pub fn gen_hist(r: &mut Rng, s: &mut Spec) {
    let target = s.layers.clone();
    let mut sim = Sim::new(s);
    let mut h: Vec<(Op, String)> = Vec::new();
    let dense = r.chance(1, 3);
    let noise = |r: &mut Rng, sim: &mut Sim, h: &mut Vec<(Op, String)>, at: &str| {
        if r.chance(if dense { 2 } else { 1 }, 3) {
            refused_op(r, sim, h, Some(at));
        }
    };
    let junk = |r: &mut Rng| format!("{}", 1 + r.next() % 1_000_000);
    let scratch = r.chance(1, 4);
    if scratch {
        step(&mut sim, &mut h, Op::NewLayer("scratch".into()));
        let t = junk(r);
        step(&mut sim, &mut h, Op::Insert("scratch".into(), "a".into(), t));
    }
    let mut k = 0;
    for (i, l) in target.iter().enumerate() {
        let mut cur = "public.default".to_string();
        let mut over = false;
        if i == 0 {
            if l.name != cur && r.chance(1, 2) {
                step(&mut sim, &mut h, Op::RenameLayer(cur.clone(), l.name.clone(), r.chance(1, 2)));
                cur = l.name.clone();
            }
        } else {
            let tmp = format!("tmp{}", i);
            match r.below(4) {
                0 => {
                    step(&mut sim, &mut h, Op::NewLayer(tmp.clone()));
                    cur = tmp;
                }
                1 => {
                    // a layer of the final name exists already and is replaced by the overwriting rename
                    step(&mut sim, &mut h, Op::NewLayer(l.name.clone()));
                    let t = junk(r);
                    step(&mut sim, &mut h, Op::Insert(l.name.clone(), "junk".into(), t));
                    step(&mut sim, &mut h, Op::NewLayer(tmp.clone()));
                    cur = tmp;
                    over = true;
                }
                _ => {
                    step(&mut sim, &mut h, Op::NewLayer(l.name.clone()));
                    cur = l.name.clone();
                }
            }
        }
        noise(r, &mut sim, &mut h, &cur);
        let mut gl = l.glyphs.clone();
        for a in (1..gl.len()).rev() {
            let b = r.below(a + 1);
            gl.swap(a, b);
        }
        for (n, tok) in gl {
            k += 1;
            let tmpg = format!("t.{}", k);
            let ig = |n: &str, t: &str| Op::Insert(cur.clone(), n.to_string(), t.to_string());
            match r.below(7) {
                0 => {
                    step(&mut sim, &mut h, ig(&tmpg, &tok));
                    noise(r, &mut sim, &mut h, &cur);
                    step(&mut sim, &mut h, Op::RenameGlyph(cur.clone(), tmpg, n.clone(), r.chance(1, 2)));
                }
                1 => {
                    let t = junk(r);
                    step(&mut sim, &mut h, ig(&n, &t));
                    noise(r, &mut sim, &mut h, &cur);
                    step(&mut sim, &mut h, ig(&n, &tok));
                }
                2 => {
                    step(&mut sim, &mut h, ig(&n, &tok));
                    step(&mut sim, &mut h, Op::RemoveGlyph(cur.clone(), n.clone()));
                    noise(r, &mut sim, &mut h, &cur);
                    step(&mut sim, &mut h, ig(&n, &tok));
                }
                3 => {
                    let t = junk(r);
                    step(&mut sim, &mut h, ig(&n, &t));
                    step(&mut sim, &mut h, ig(&tmpg, &tok));
                    noise(r, &mut sim, &mut h, &cur);
                    step(&mut sim, &mut h, Op::RenameGlyph(cur.clone(), tmpg, n.clone(), true));
                }
                _ => step(&mut sim, &mut h, ig(&n, &tok)),
            }
            noise(r, &mut sim, &mut h, &cur);
        }
        if cur != l.name {
            step(&mut sim, &mut h, Op::RenameLayer(cur.clone(), l.name.clone(), over || r.chance(1, 2)));
        }
        noise(r, &mut sim, &mut h, &l.name);
    }
    if scratch {
        step(&mut sim, &mut h, Op::RemoveLayer("scratch".into()));
    }
    // the last call of a history is a refused one half of the time (nothing after it can repair the state)
    if r.chance(1, 2) {
        let at = sim.layers[r.below(sim.layers.len())].0.clone();
        refused_op(r, &mut sim, &mut h, Some(&at));
    }
    // what the documented behaviour leaves
    s.layers = sim
        .layers
        .iter()
        .map(|(n, gs)| {
            let t = target.iter().find(|t| t.name == *n);
            LayerSpec {
                name: n.clone(),
                color: t.and_then(|t| t.color),
                lib: t.map(|t| t.lib.clone()).unwrap_or_default(),
                glyphs: gs.iter().map(|(a, b)| (a.clone(), b.clone())).collect(),
            }
        })
        .collect();
    s.hist = h;
}

fn emit(out: &mut dyn Write, scratch: &Path, s: &Spec) {
    let toks = input_tokens(s);
    let refs: Vec<&str> = toks.iter().map(|x| x.as_str()).collect();
    let obs = observe(&refs, scratch);
    writeln!(out, "C01 {} => {}", toks.join(" "), obs).unwrap();
}

pub fn gen(tier: &str, seed: u64, out: &mut dyn Write) {
    let scratch: PathBuf = scratch_root().join("c01");
    std::fs::create_dir_all(&scratch).unwrap();
    let mut rng = Rng::new(seed);
    // part 1: one kerning pair / one font-info number / unitsPerEm per boundary value (exhaustive over the pool)
    let eps = f64::EPSILON;
    let mut bvals: Vec<f64> = Vec::new();
    for c in [0.0, 1.0, -1.0, 2.0, 0.5, -0.5, 1.5, 2.5, 1000.0, 2147483647.0, 2147483648.0, -2147483648.0, -2147483649.0, eps, 3e9, -3e9, 1e300, 9007199254740992.0] {
        for k in [-2i64, -1, 0, 1, 2] {
            if c == 0.0 && k != 0 {
                continue;
            }
            bvals.push(ulp(c, k));
        }
        bvals.push(c + eps);
        bvals.push(c - eps);
    }
    bvals.push(-0.0);
    bvals.push(2147483647.5);
    bvals.push(-2147483648.5);
    for v in &bvals {
        if *v != 0.0 && v.abs() <= eps {
            continue; // recorded finding; exercised by the corpus and the tagged flavour
        }
        let mut s = Spec::default();
        s.opts = ('t', 1, 'd');
        s.creator = Some(DEFAULT_CREATOR.into());
        s.layers.push(LayerSpec { name: "public.default".into(), ..Default::default() });
        s.kerning = vec![("A".into(), vec![("B".into(), v.to_bits())])];
        s.nums = vec![("ascender".into(), v.to_bits()), ("postscriptBlueValues.n".into(), 2), ("postscriptBlueValues.0".into(), v.to_bits()), ("postscriptBlueValues.1".into(), (-*v).to_bits())];
        if v.is_sign_positive() {
            s.upm = Some(v.to_bits());
        }
        emit(out, &scratch, &s);
    }
    // part 2: random fonts
    let n = if tier == "thorough" { 30_000 } else { 1_500 };
    for i in 0..n {
        let mut s = gen_spec(&mut rng, i % 40);
        // every second font is built through a history of container calls, refused ones included
        if i % 2 == 1 {
            gen_hist(&mut rng, &mut s);
        }
        emit(out, &scratch, &s);
    }
    // part 3: fonts that start from a load: a foreign tree (non-default glif file names) is loaded, glyphs are
    // inserted through the API, then save + load; these lines are `C04 edit …` lines (same driver module)
    let m = if tier == "thorough" { 4_000 } else { 200 };
    for i in 0..m {
        crate::c04::emit_tree_case(&mut rng, i, true, out, &scratch);
    }
    rm_rf(&scratch);
}
