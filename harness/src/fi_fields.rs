//! GENERATED once from src/fontinfo.rs (struct FontInfo): one dump line per public field, keyed by its serde name.
//! Used by c14.rs to print every field of a loaded FontInfo through the public struct.
use crate::common::*;
use norad::FontInfo;
use norad::fontinfo::StyleMapStyle;

pub fn dump(fi: &FontInfo) -> Vec<String> {
    let mut o: Vec<String> = Vec::new();
    let fl = |v: &Vec<f64>| if v.is_empty() { "-".to_string() } else { v.iter().map(|x| f64bits(*x)).collect::<Vec<_>>().join(",") };
    let il = |v: Vec<i64>| if v.is_empty() { "-".to_string() } else { v.iter().map(|x| x.to_string()).collect::<Vec<_>>().join(",") };
    if let Some(v) = &fi.ascender {
        o.push(format!("ascender=f:{}", f64bits(*v)));
    }
    if let Some(v) = &fi.cap_height {
        o.push(format!("capHeight=f:{}", f64bits(*v)));
    }
    if let Some(v) = &fi.copyright {
        o.push(format!("copyright=s:{}", hexs(v)));
    }
    if let Some(v) = &fi.descender {
        o.push(format!("descender=f:{}", f64bits(*v)));
    }
    if let Some(v) = &fi.family_name {
        o.push(format!("familyName=s:{}", hexs(v)));
    }
    if fi.guidelines.is_some() {
        o.push("guidelines=x:1".to_string());
    }
    if let Some(v) = &fi.italic_angle {
        o.push(format!("italicAngle=f:{}", f64bits(*v)));
    }
    if let Some(v) = &fi.macintosh_fond_family_id {
        o.push(format!("macintoshFONDFamilyID=i:{}", v));
    }
    if let Some(v) = &fi.macintosh_fond_name {
        o.push(format!("macintoshFONDName=s:{}", hexs(v)));
    }
    if let Some(v) = &fi.note {
        o.push(format!("note=s:{}", hexs(v)));
    }
    if fi.open_type_gasp_range_records.is_some() {
        o.push("openTypeGaspRangeRecords=x:1".to_string());
    }
    if let Some(v) = &fi.open_type_head_created {
        o.push(format!("openTypeHeadCreated=s:{}", hexs(v)));
    }
    if let Some(v) = &fi.open_type_head_flags {
        o.push(format!("openTypeHeadFlags=il:{}", il(v.iter().map(|x| *x as i64).collect())));
    }
    if let Some(v) = &fi.open_type_head_lowest_rec_ppem {
        o.push(format!("openTypeHeadLowestRecPPEM=i:{}", v));
    }
    if let Some(v) = &fi.open_type_hhea_ascender {
        o.push(format!("openTypeHheaAscender=i:{}", v));
    }
    if let Some(v) = &fi.open_type_hhea_caret_offset {
        o.push(format!("openTypeHheaCaretOffset=i:{}", v));
    }
    if let Some(v) = &fi.open_type_hhea_caret_slope_rise {
        o.push(format!("openTypeHheaCaretSlopeRise=i:{}", v));
    }
    if let Some(v) = &fi.open_type_hhea_caret_slope_run {
        o.push(format!("openTypeHheaCaretSlopeRun=i:{}", v));
    }
    if let Some(v) = &fi.open_type_hhea_descender {
        o.push(format!("openTypeHheaDescender=i:{}", v));
    }
    if let Some(v) = &fi.open_type_hhea_line_gap {
        o.push(format!("openTypeHheaLineGap=i:{}", v));
    }
    if let Some(v) = &fi.open_type_name_compatible_full_name {
        o.push(format!("openTypeNameCompatibleFullName=s:{}", hexs(v)));
    }
    if let Some(v) = &fi.open_type_name_description {
        o.push(format!("openTypeNameDescription=s:{}", hexs(v)));
    }
    if let Some(v) = &fi.open_type_name_designer_url {
        o.push(format!("openTypeNameDesignerURL=s:{}", hexs(v)));
    }
    if let Some(v) = &fi.open_type_name_designer {
        o.push(format!("openTypeNameDesigner=s:{}", hexs(v)));
    }
    if let Some(v) = &fi.open_type_name_license {
        o.push(format!("openTypeNameLicense=s:{}", hexs(v)));
    }
    if let Some(v) = &fi.open_type_name_license_url {
        o.push(format!("openTypeNameLicenseURL=s:{}", hexs(v)));
    }
    if let Some(v) = &fi.open_type_name_manufacturer {
        o.push(format!("openTypeNameManufacturer=s:{}", hexs(v)));
    }
    if let Some(v) = &fi.open_type_name_manufacturer_url {
        o.push(format!("openTypeNameManufacturerURL=s:{}", hexs(v)));
    }
    if let Some(v) = &fi.open_type_name_preferred_family_name {
        o.push(format!("openTypeNamePreferredFamilyName=s:{}", hexs(v)));
    }
    if let Some(v) = &fi.open_type_name_preferred_subfamily_name {
        o.push(format!("openTypeNamePreferredSubfamilyName=s:{}", hexs(v)));
    }
    if fi.open_type_name_records.is_some() {
        o.push("openTypeNameRecords=x:1".to_string());
    }
    if let Some(v) = &fi.open_type_name_sample_text {
        o.push(format!("openTypeNameSampleText=s:{}", hexs(v)));
    }
    if let Some(v) = &fi.open_type_name_unique_id {
        o.push(format!("openTypeNameUniqueID=s:{}", hexs(v)));
    }
    if let Some(v) = &fi.open_type_name_version {
        o.push(format!("openTypeNameVersion=s:{}", hexs(v)));
    }
    if let Some(v) = &fi.open_type_name_wws_family_name {
        o.push(format!("openTypeNameWWSFamilyName=s:{}", hexs(v)));
    }
    if let Some(v) = &fi.open_type_name_wws_subfamily_name {
        o.push(format!("openTypeNameWWSSubfamilyName=s:{}", hexs(v)));
    }
    if let Some(v) = &fi.open_type_os2_code_page_ranges {
        o.push(format!("openTypeOS2CodePageRanges=il:{}", il(v.iter().map(|x| *x as i64).collect())));
    }
    if let Some(v) = &fi.open_type_os2_family_class {
        o.push(format!("openTypeOS2FamilyClass=il:{},{}", v.class_id, v.subclass_id));
    }
    if let Some(v) = &fi.open_type_os2_panose {
        o.push(format!("openTypeOS2Panose=il:{}", il(vec![v.family_type as i64, v.serif_style as i64, v.weight as i64, v.proportion as i64, v.contrast as i64, v.stroke_variation as i64, v.arm_style as i64, v.letterform as i64, v.midline as i64, v.x_height as i64])));
    }
    if let Some(v) = &fi.open_type_os2_selection {
        o.push(format!("openTypeOS2Selection=il:{}", il(v.iter().map(|x| *x as i64).collect())));
    }
    if let Some(v) = &fi.open_type_os2_strikeout_position {
        o.push(format!("openTypeOS2StrikeoutPosition=i:{}", v));
    }
    if let Some(v) = &fi.open_type_os2_strikeout_size {
        o.push(format!("openTypeOS2StrikeoutSize=i:{}", v));
    }
    if let Some(v) = &fi.open_type_os2_subscript_x_offset {
        o.push(format!("openTypeOS2SubscriptXOffset=i:{}", v));
    }
    if let Some(v) = &fi.open_type_os2_subscript_x_size {
        o.push(format!("openTypeOS2SubscriptXSize=i:{}", v));
    }
    if let Some(v) = &fi.open_type_os2_subscript_y_offset {
        o.push(format!("openTypeOS2SubscriptYOffset=i:{}", v));
    }
    if let Some(v) = &fi.open_type_os2_subscript_y_size {
        o.push(format!("openTypeOS2SubscriptYSize=i:{}", v));
    }
    if let Some(v) = &fi.open_type_os2_superscript_x_offset {
        o.push(format!("openTypeOS2SuperscriptXOffset=i:{}", v));
    }
    if let Some(v) = &fi.open_type_os2_superscript_x_size {
        o.push(format!("openTypeOS2SuperscriptXSize=i:{}", v));
    }
    if let Some(v) = &fi.open_type_os2_superscript_y_offset {
        o.push(format!("openTypeOS2SuperscriptYOffset=i:{}", v));
    }
    if let Some(v) = &fi.open_type_os2_superscript_y_size {
        o.push(format!("openTypeOS2SuperscriptYSize=i:{}", v));
    }
    if let Some(v) = &fi.open_type_os2_type {
        o.push(format!("openTypeOS2Type=il:{}", il(v.iter().map(|x| *x as i64).collect())));
    }
    if let Some(v) = &fi.open_type_os2_typo_ascender {
        o.push(format!("openTypeOS2TypoAscender=i:{}", v));
    }
    if let Some(v) = &fi.open_type_os2_typo_descender {
        o.push(format!("openTypeOS2TypoDescender=i:{}", v));
    }
    if let Some(v) = &fi.open_type_os2_typo_line_gap {
        o.push(format!("openTypeOS2TypoLineGap=i:{}", v));
    }
    if let Some(v) = &fi.open_type_os2_unicode_ranges {
        o.push(format!("openTypeOS2UnicodeRanges=il:{}", il(v.iter().map(|x| *x as i64).collect())));
    }
    if let Some(v) = &fi.open_type_os2_vendor_id {
        o.push(format!("openTypeOS2VendorID=s:{}", hexs(v)));
    }
    if let Some(v) = &fi.open_type_os2_weight_class {
        o.push(format!("openTypeOS2WeightClass=i:{}", v));
    }
    if let Some(v) = &fi.open_type_os2_width_class {
        o.push(format!("openTypeOS2WidthClass=i:{}", *v as u8));
    }
    if let Some(v) = &fi.open_type_os2_win_ascent {
        o.push(format!("openTypeOS2WinAscent=i:{}", v));
    }
    if let Some(v) = &fi.open_type_os2_win_descent {
        o.push(format!("openTypeOS2WinDescent=i:{}", v));
    }
    if let Some(v) = &fi.open_type_vhea_caret_offset {
        o.push(format!("openTypeVheaCaretOffset=i:{}", v));
    }
    if let Some(v) = &fi.open_type_vhea_caret_slope_rise {
        o.push(format!("openTypeVheaCaretSlopeRise=i:{}", v));
    }
    if let Some(v) = &fi.open_type_vhea_caret_slope_run {
        o.push(format!("openTypeVheaCaretSlopeRun=i:{}", v));
    }
    if let Some(v) = &fi.open_type_vhea_vert_typo_ascender {
        o.push(format!("openTypeVheaVertTypoAscender=i:{}", v));
    }
    if let Some(v) = &fi.open_type_vhea_vert_typo_descender {
        o.push(format!("openTypeVheaVertTypoDescender=i:{}", v));
    }
    if let Some(v) = &fi.open_type_vhea_vert_typo_line_gap {
        o.push(format!("openTypeVheaVertTypoLineGap=i:{}", v));
    }
    if let Some(v) = &fi.postscript_blue_fuzz {
        o.push(format!("postscriptBlueFuzz=f:{}", f64bits(*v)));
    }
    if let Some(v) = &fi.postscript_blue_scale {
        o.push(format!("postscriptBlueScale=f:{}", f64bits(*v)));
    }
    if let Some(v) = &fi.postscript_blue_shift {
        o.push(format!("postscriptBlueShift=f:{}", f64bits(*v)));
    }
    if let Some(v) = &fi.postscript_blue_values {
        o.push(format!("postscriptBlueValues=l:{}", fl(v)));
    }
    if let Some(v) = &fi.postscript_default_character {
        o.push(format!("postscriptDefaultCharacter=s:{}", hexs(v)));
    }
    if let Some(v) = &fi.postscript_default_width_x {
        o.push(format!("postscriptDefaultWidthX=f:{}", f64bits(*v)));
    }
    if let Some(v) = &fi.postscript_family_blues {
        o.push(format!("postscriptFamilyBlues=l:{}", fl(v)));
    }
    if let Some(v) = &fi.postscript_family_other_blues {
        o.push(format!("postscriptFamilyOtherBlues=l:{}", fl(v)));
    }
    if let Some(v) = &fi.postscript_font_name {
        o.push(format!("postscriptFontName=s:{}", hexs(v)));
    }
    if let Some(v) = &fi.postscript_force_bold {
        o.push(format!("postscriptForceBold=b:{}", *v as u8));
    }
    if let Some(v) = &fi.postscript_full_name {
        o.push(format!("postscriptFullName=s:{}", hexs(v)));
    }
    if let Some(v) = &fi.postscript_is_fixed_pitch {
        o.push(format!("postscriptIsFixedPitch=b:{}", *v as u8));
    }
    if let Some(v) = &fi.postscript_nominal_width_x {
        o.push(format!("postscriptNominalWidthX=f:{}", f64bits(*v)));
    }
    if let Some(v) = &fi.postscript_other_blues {
        o.push(format!("postscriptOtherBlues=l:{}", fl(v)));
    }
    if let Some(v) = &fi.postscript_slant_angle {
        o.push(format!("postscriptSlantAngle=f:{}", f64bits(*v)));
    }
    if let Some(v) = &fi.postscript_stem_snap_h {
        o.push(format!("postscriptStemSnapH=l:{}", fl(v)));
    }
    if let Some(v) = &fi.postscript_stem_snap_v {
        o.push(format!("postscriptStemSnapV=l:{}", fl(v)));
    }
    if let Some(v) = &fi.postscript_underline_position {
        o.push(format!("postscriptUnderlinePosition=f:{}", f64bits(*v)));
    }
    if let Some(v) = &fi.postscript_underline_thickness {
        o.push(format!("postscriptUnderlineThickness=f:{}", f64bits(*v)));
    }
    if let Some(v) = &fi.postscript_unique_id {
        o.push(format!("postscriptUniqueID=i:{}", v));
    }
    if let Some(v) = &fi.postscript_weight_name {
        o.push(format!("postscriptWeightName=s:{}", hexs(v)));
    }
    if let Some(v) = &fi.postscript_windows_character_set {
        o.push(format!("postscriptWindowsCharacterSet=i:{}", *v as u8));
    }
    if let Some(v) = &fi.style_map_family_name {
        o.push(format!("styleMapFamilyName=s:{}", hexs(v)));
    }
    if let Some(v) = &fi.style_map_style_name {
        o.push(format!("styleMapStyleName=s:{}", hexs(match v { StyleMapStyle::Regular => "regular", StyleMapStyle::Italic => "italic", StyleMapStyle::Bold => "bold", StyleMapStyle::BoldItalic => "bold italic" })));
    }
    if let Some(v) = &fi.style_name {
        o.push(format!("styleName=s:{}", hexs(v)));
    }
    if let Some(v) = &fi.trademark {
        o.push(format!("trademark=s:{}", hexs(v)));
    }
    if let Some(v) = &fi.units_per_em {
        o.push(format!("unitsPerEm=f:{}", f64bits(v.as_f64())));
    }
    if let Some(v) = &fi.version_major {
        o.push(format!("versionMajor=i:{}", v));
    }
    if let Some(v) = &fi.version_minor {
        o.push(format!("versionMinor=i:{}", v));
    }
    if let Some(v) = &fi.woff_major_version {
        o.push(format!("woffMajorVersion=i:{}", v));
    }
    if fi.woff_metadata_copyright.is_some() {
        o.push("woffMetadataCopyright=x:1".to_string());
    }
    if fi.woff_metadata_credits.is_some() {
        o.push("woffMetadataCredits=x:1".to_string());
    }
    if fi.woff_metadata_description.is_some() {
        o.push("woffMetadataDescription=x:1".to_string());
    }
    if fi.woff_metadata_extensions.is_some() {
        o.push("woffMetadataExtensions=x:1".to_string());
    }
    if fi.woff_metadata_license.is_some() {
        o.push("woffMetadataLicense=x:1".to_string());
    }
    if fi.woff_metadata_licensee.is_some() {
        o.push("woffMetadataLicensee=x:1".to_string());
    }
    if fi.woff_metadata_trademark.is_some() {
        o.push("woffMetadataTrademark=x:1".to_string());
    }
    if fi.woff_metadata_unique_id.is_some() {
        o.push("woffMetadataUniqueID=x:1".to_string());
    }
    if fi.woff_metadata_vendor.is_some() {
        o.push("woffMetadataVendor=x:1".to_string());
    }
    if let Some(v) = &fi.woff_minor_version {
        o.push(format!("woffMinorVersion=i:{}", v));
    }
    if let Some(v) = &fi.x_height {
        o.push(format!("xHeight=f:{}", f64bits(*v)));
    }
    if let Some(v) = &fi.year {
        o.push(format!("year=i:{}", v));
    }
    o.sort();
    o
}
