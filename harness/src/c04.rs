//! C04: load, save, load again.  Inputs are trees / glif documents written by THIS file (an independent
//! renderer with randomised legal surface syntax), and the repository's testdata (copied to scratch).
//!
//! lines:
//!   `C04 ufo v=<1|2|3> s=<surface seed> dl=<index of the default layer in layercontents> <C01 font tokens: the intended content>`
//!   `C04 testdata p=<hex path below testdata/>`
//!      => `l1=<ok|err:..|panic> <font tokens of load(x)> pre=<paths> | save= load= files= mw= nw= uw= kw= lc= cw= fw= gf=<glif formats written>
//!          <font tokens of load(save(load(x)))> post= cmp=`
//!   `C04 glif f=<1|2> g=<seed> s=<surface seed> x=<plain|cdata-note|comment-note|width-1e400|lib-newline>`
//!   `C04 glifdata p=<hex path>`
//!      => `p1=<ok|err|panic> a=<1|0|-> enc=<ok|err|panic> fmt=<format attribute written> p2=<..> fix=<1|0>`
use crate::c01::*;
use crate::common::*;
use crate::rng::Rng;
use norad::{Anchor, Color, Component, Contour, ContourPoint, Font, Glyph, Name, PointType};
use plist::{Dictionary, Value};
use std::io::Write;
use std::path::{Path, PathBuf};

// ------------------------------------------------------------------ surface syntax

pub struct Surf {
    r: Rng,
    /// render text nodes (plist strings and keys, glif notes) as CDATA sections: whole, split between text and
    /// CDATA, next to an empty section.  Only switched on for the tagged inputs (`cd=`, `x=cdata-*`).
    cdata: bool,
}

impl Surf {
    fn new(seed: u64) -> Self {
        Surf { r: Rng::new(seed ^ 0x5f), cdata: false }
    }
    fn ws(&mut self) -> &'static str {
        *self.r.pick(&[" ", " ", "  ", "\n", "\t", "\n  ", " \n"])
    }
    fn ows(&mut self) -> &'static str {
        *self.r.pick(&["", "", " ", "\n", "\n\t", "  "])
    }
    fn charref(&mut self, c: char) -> String {
        if self.r.chance(1, 2) {
            format!("&#x{:X};", c as u32)
        } else {
            format!("&#{};", c as u32)
        }
    }
    fn esc(&mut self, s: &str, quote: Option<char>) -> String {
        if self.cdata && quote.is_none() && !s.contains("]]>") && self.r.chance(2, 3) {
            self.cdata = false;
            let cs: Vec<char> = s.chars().collect();
            let k = cs.len() / 2;
            let (a, b): (String, String) = (cs[..k].iter().collect(), cs[k..].iter().collect());
            let out = match self.r.below(4) {
                // the whole text literal
                0 | 1 => format!("<![CDATA[{}]]>", s),
                // text, then the rest as CDATA
                2 => format!("{}<![CDATA[{}]]>", self.esc(&a, None), b),
                // an empty section next to ordinary text (says the same as the text alone)
                _ => format!("<![CDATA[]]>{}", self.esc(s, None)),
            };
            self.cdata = true;
            return out;
        }
        let mut o = String::new();
        for c in s.chars() {
            match c {
                '&' => o.push_str("&amp;"),
                '<' => o.push_str("&lt;"),
                '>' => o.push_str(if self.r.chance(1, 2) { "&gt;" } else { ">" }),
                '"' if quote == Some('"') => o.push_str("&quot;"),
                '\'' if quote == Some('\'') => o.push_str("&apos;"),
                '\r' => o.push_str("&#13;"),
                '\n' | '\t' if quote.is_some() => o.push_str(&self.charref(c)),
                c if (c as u32) < 0x20 && c != '\n' && c != '\t' => o.push_str(&self.charref(c)),
                c if c.is_alphanumeric() && self.r.chance(1, 12) => o.push_str(&self.charref(c)),
                c => o.push(c),
            }
        }
        o
    }
    /// `<name a="1" b='2'/>` with shuffled attributes, random quotes and blanks
    fn tag(&mut self, name: &str, attrs: &[(String, String)], empty: bool) -> String {
        let mut a: Vec<&(String, String)> = attrs.iter().collect();
        for i in (1..a.len()).rev() {
            let j = self.r.below(i + 1);
            a.swap(i, j);
        }
        let mut o = format!("<{}", name);
        for (k, v) in a {
            let q = if self.r.chance(1, 3) { '\'' } else { '"' };
            let e = self.esc(v, Some(q));
            o.push_str(self.ws());
            o.push_str(&format!("{}{}={}{}{}{}", k, "", "", q, e, q));
        }
        o.push_str(self.ows());
        o.push_str(if empty { "/>" } else { ">" });
        o
    }
    fn prolog(&mut self, doctype: bool) -> String {
        let mut o = String::new();
        if self.r.chance(1, 6) {
            o.push('\u{feff}');
        }
        match self.r.below(5) {
            0 => {}
            1 => o.push_str("<?xml version='1.0' encoding='UTF-8'?>"),
            2 => o.push_str("<?xml version=\"1.0\" encoding=\"utf-8\" ?>"),
            3 => o.push_str("<?xml version=\"1.0\"?>"),
            _ => o.push_str("<?xml version=\"1.0\" encoding=\"UTF-8\"?>"),
        }
        o.push_str(self.ows());
        if self.r.chance(1, 4) {
            o.push_str("<!-- written by \"another\" tool & co -->");
            o.push_str(self.ows());
        }
        if doctype && self.r.chance(1, 2) {
            o.push_str("<!DOCTYPE plist PUBLIC \"-//Apple//DTD PLIST 1.0//EN\" \"http://www.apple.com/DTDs/PropertyList-1.0.dtd\">");
            o.push_str(self.ows());
        }
        o
    }
    fn num(&mut self, x: f64) -> String {
        if x.fract() == 0.0 && x.abs() < 1e15 {
            match self.r.below(6) {
                0 => format!("{:.1}", x),
                1 if x != 0.0 => format!("{:E}", x),
                2 => format!("{:.3}", x),
                _ => format!("{}", x),
            }
        } else if self.r.chance(1, 5) {
            format!("{:e}", x)
        } else {
            format!("{}", x)
        }
    }
}

fn b64(data: &[u8]) -> String {
    const T: &[u8; 64] = b"ABCDEFGHIJKLMNOPQRSTUVWXYZabcdefghijklmnopqrstuvwxyz0123456789+/";
    let mut o = String::new();
    for ch in data.chunks(3) {
        let b = [ch[0], *ch.get(1).unwrap_or(&0), *ch.get(2).unwrap_or(&0)];
        o.push(T[(b[0] >> 2) as usize] as char);
        o.push(T[(((b[0] & 3) << 4) | (b[1] >> 4)) as usize] as char);
        o.push(if ch.len() > 1 { T[(((b[1] & 15) << 2) | (b[2] >> 6)) as usize] as char } else { '=' });
        o.push(if ch.len() > 2 { T[(b[2] & 63) as usize] as char } else { '=' });
    }
    o
}

/// XML plist body of a value; `ints`: whole reals may be written as `<integer>` (kerning, font info)
fn render_value(v: &Value, s: &mut Surf, ints: bool, o: &mut String) {
    match v {
        Value::String(x) => {
            if x.is_empty() && s.r.chance(1, 2) {
                o.push_str("<string/>");
            } else {
                o.push_str("<string>");
                o.push_str(&s.esc(x, None));
                o.push_str("</string>");
            }
        }
        Value::Integer(i) => {
            let t = i.as_signed().map(|x| x.to_string()).unwrap_or_else(|| i.as_unsigned().unwrap().to_string());
            o.push_str(&format!("<integer>{}</integer>", t));
        }
        Value::Real(r) => {
            if ints && r.fract() == 0.0 && r.abs() < 9e15 && s.r.chance(2, 3) {
                o.push_str(&format!("<integer>{}</integer>", *r as i64));
            } else {
                o.push_str(&format!("<real>{}</real>", s.num(*r)));
            }
        }
        Value::Boolean(b) => {
            o.push_str(if *b { "<true" } else { "<false" });
            o.push_str(if s.r.chance(1, 3) { " />" } else { "/>" });
        }
        Value::Data(d) => {
            o.push_str("<data>");
            o.push_str(s.ows());
            o.push_str(&b64(d));
            o.push_str(s.ows());
            o.push_str("</data>");
        }
        Value::Date(d) => o.push_str(&format!("<date>{}</date>", d.to_xml_format())),
        Value::Array(a) => {
            if a.is_empty() && s.r.chance(1, 2) {
                o.push_str("<array/>");
            } else {
                o.push_str("<array>");
                for x in a {
                    o.push_str(s.ows());
                    render_value(x, s, ints, o);
                }
                o.push_str(s.ows());
                o.push_str("</array>");
            }
        }
        Value::Dictionary(d) => {
            if d.is_empty() && s.r.chance(1, 2) {
                o.push_str("<dict/>");
            } else {
                o.push_str("<dict>");
                // foreign tools do not sort: rotate the key order
                let mut ks: Vec<&String> = d.keys().collect();
                if !ks.is_empty() {
                    let k = s.r.below(ks.len());
                    ks.rotate_left(k);
                }
                for k in ks {
                    o.push_str(s.ows());
                    o.push_str(&format!("<key>{}</key>", s.esc(k, None)));
                    o.push_str(s.ows());
                    render_value(d.get(k).unwrap(), s, ints, o);
                    if s.r.chance(1, 20) {
                        o.push_str("<!-- c -->");
                    }
                }
                o.push_str(s.ows());
                o.push_str("</dict>");
            }
        }
        _ => {}
    }
}

fn render_plist(v: &Value, s: &mut Surf, ints: bool) -> Vec<u8> {
    let mut o = s.prolog(true);
    o.push_str(if s.r.chance(1, 2) { "<plist version=\"1.0\">" } else { "<plist version='1.0'>" });
    o.push_str(s.ows());
    render_value(v, s, ints, &mut o);
    o.push_str(s.ows());
    o.push_str("</plist>");
    o.push_str(s.ows());
    if s.r.chance(1, 6) {
        o.push_str("<!-- trailing -->\n");
    }
    o.into_bytes()
}

fn col_str(c: &Color) -> String {
    let (r, g, b, a) = c.channels();
    format!("{},{},{},{}", r, g, b, a)
}

fn kv(k: &str, v: String) -> (String, String) {
    (k.to_string(), v)
}

fn guideline_attrs(g: &norad::Guideline, s: &mut Surf) -> Vec<(String, String)> {
    let mut a = Vec::new();
    match g.line {
        norad::Line::Vertical(x) => a.push(kv("x", s.num(x))),
        norad::Line::Horizontal(y) => a.push(kv("y", s.num(y))),
        norad::Line::Angle { x, y, degrees } => {
            a.push(kv("x", s.num(x)));
            a.push(kv("y", s.num(y)));
            a.push(kv("angle", s.num(degrees)));
        }
    }
    if let Some(n) = &g.name {
        a.push(kv("name", n.to_string()));
    }
    if let Some(c) = &g.color {
        a.push(kv("color", col_str(c)));
    }
    if let Some(i) = g.identifier() {
        a.push(kv("identifier", i.as_str().to_string()));
    }
    a
}

/// an independent glif writer: every element from the public getters, element order shuffled, random
/// attribute order / quotes / blanks / character references / number spellings
pub fn render_glif(g: &Glyph, format: u8, s: &mut Surf, variant: &str) -> Vec<u8> {
    render_glif_cd(g, format, s, variant, "")
}

/// `cd`: "note" = the note as CDATA, "glyphlib" = the strings and keys of the lib as CDATA
pub fn render_glif_cd(g: &Glyph, format: u8, s: &mut Surf, variant: &str, cd: &str) -> Vec<u8> {
    let mut o = s.prolog(false);
    let mut ga = vec![kv("name", g.name().to_string()), kv("format", format.to_string())];
    if format == 2 && s.r.chance(1, 3) {
        ga.push(kv("formatMinor", "0".to_string()));
    }
    o.push_str(&s.tag("glyph", &ga, false));
    let mut parts: Vec<String> = Vec::new();
    if g.width != 0.0 || g.height != 0.0 || variant == "width-1e400" {
        let mut a = Vec::new();
        if variant == "width-1e400" {
            a.push(kv("width", "1E400".to_string()));
        } else if g.width != 0.0 || s.r.chance(1, 2) {
            a.push(kv("width", s.num(g.width)));
        }
        if g.height != 0.0 || s.r.chance(1, 4) {
            a.push(kv("height", s.num(g.height)));
        }
        parts.push(s.tag("advance", &a, true));
    }
    let mut uni = String::new();
    for c in g.codepoints.iter() {
        let hex = match s.r.below(3) {
            0 => format!("{:04X}", c as u32),
            1 => format!("{:x}", c as u32),
            _ => format!("{:06X}", c as u32),
        };
        uni.push_str(&s.tag("unicode", &[kv("hex", hex)], true));
        uni.push_str(s.ows());
    }
    if !uni.is_empty() {
        parts.push(uni);
    }
    match variant {
        "cdata-note" => parts.push("<note><![CDATA[kept & <verbatim>]]></note>".to_string()),
        "cdata-note-padded" => parts.push(format!("<note><![CDATA[{}]]></note>", CDATA_PADDED)),
        "cdata-note-empty" => parts.push("<note><![CDATA[]]></note>".to_string()),
        "cdata-note-blank" => parts.push("<note><![CDATA[  \n ]]></note>".to_string()),
        "cdata-note-mixed" => parts.push("<note>text <![CDATA[ cd & <x> ]]> more</note>".to_string()),
        "cdata-note-twice" => parts.push("<note><![CDATA[one ]]><![CDATA[ two]]></note>".to_string()),
        "comment-note" => parts.push("<note>a<!-- c -->b</note>".to_string()),
        _ => {
            if let Some(n) = &g.note {
                s.cdata = cd == "note";
                let body = s.esc(n, None);
                s.cdata = false;
                parts.push(format!("<note>{}{}{}</note>", s.ows(), body, s.ows()));
            }
        }
    }
    if let Some(im) = &g.image {
        let mut a = vec![kv("fileName", im.file_name().to_string_lossy().to_string())];
        if let Some(c) = &im.color {
            a.push(kv("color", col_str(c)));
        }
        let (t, d) = (&im.transform, norad::AffineTransform::default());
        for (k, v, dv) in [
            ("xScale", t.x_scale, d.x_scale),
            ("xyScale", t.xy_scale, d.xy_scale),
            ("yxScale", t.yx_scale, d.yx_scale),
            ("yScale", t.y_scale, d.y_scale),
            ("xOffset", t.x_offset, d.x_offset),
            ("yOffset", t.y_offset, d.y_offset),
        ] {
            if v != dv || s.r.chance(1, 5) {
                a.push(kv(k, s.num(v)));
            }
        }
        parts.push(s.tag("image", &a, true));
    }
    let mut gl = String::new();
    for x in &g.guidelines {
        let a = guideline_attrs(x, s);
        gl.push_str(&s.tag("guideline", &a, true));
        gl.push_str(s.ows());
    }
    if !gl.is_empty() {
        parts.push(gl);
    }
    let mut an = String::new();
    if format == 2 {
        for x in &g.anchors {
            let mut a = vec![kv("x", s.num(x.x)), kv("y", s.num(x.y))];
            if let Some(n) = &x.name {
                a.push(kv("name", n.to_string()));
            }
            if let Some(c) = &x.color {
                a.push(kv("color", col_str(c)));
            }
            if let Some(i) = x.identifier() {
                a.push(kv("identifier", i.as_str().to_string()));
            }
            an.push_str(&s.tag("anchor", &a, true));
            an.push_str(s.ows());
        }
    }
    if !an.is_empty() {
        parts.push(an);
    }
    // outline: components and contours interleaved (their relative order per kind is kept)
    let mut ol = String::new();
    let (mut ci, mut ki) = (0, 0);
    while ci < g.contours.len() || ki < g.components.len() {
        let take_contour = ki >= g.components.len() || (ci < g.contours.len() && s.r.chance(1, 2));
        if take_contour {
            let c = &g.contours[ci];
            ci += 1;
            let mut a = Vec::new();
            if let Some(i) = c.identifier() {
                a.push(kv("identifier", i.as_str().to_string()));
            }
            ol.push_str(&s.tag("contour", &a, false));
            for p in &c.points {
                let mut a = vec![kv("x", s.num(p.x)), kv("y", s.num(p.y))];
                match p.typ {
                    PointType::Move => a.push(kv("type", "move".into())),
                    PointType::Line => a.push(kv("type", "line".into())),
                    PointType::Curve => a.push(kv("type", "curve".into())),
                    PointType::QCurve => a.push(kv("type", "qcurve".into())),
                    PointType::OffCurve => {
                        if s.r.chance(1, 2) {
                            a.push(kv("type", "offcurve".into()))
                        }
                    }
                }
                if p.smooth {
                    a.push(kv("smooth", "yes".into()));
                } else if s.r.chance(1, 5) {
                    a.push(kv("smooth", "no".into()));
                }
                if let Some(n) = &p.name {
                    a.push(kv("name", n.to_string()));
                }
                if let Some(i) = p.identifier() {
                    a.push(kv("identifier", i.as_str().to_string()));
                }
                ol.push_str(s.ows());
                ol.push_str(&s.tag("point", &a, true));
            }
            ol.push_str(s.ows());
            ol.push_str("</contour>");
        } else {
            let c = &g.components[ki];
            ki += 1;
            let t = &c.transform;
            let mut a = vec![kv("base", c.base.to_string())];
            let d = norad::AffineTransform::default();
            let mut put = |a: &mut Vec<(String, String)>, k: &str, v: f64, dv: f64, s: &mut Surf| {
                if v != dv || s.r.chance(1, 4) {
                    a.push(kv(k, s.num(v)));
                }
            };
            put(&mut a, "xScale", t.x_scale, d.x_scale, s);
            put(&mut a, "xyScale", t.xy_scale, d.xy_scale, s);
            put(&mut a, "yxScale", t.yx_scale, d.yx_scale, s);
            put(&mut a, "yScale", t.y_scale, d.y_scale, s);
            put(&mut a, "xOffset", t.x_offset, d.x_offset, s);
            put(&mut a, "yOffset", t.y_offset, d.y_offset, s);
            if let Some(i) = c.identifier() {
                a.push(kv("identifier", i.as_str().to_string()));
            }
            ol.push_str(&s.tag("component", &a, true));
        }
        ol.push_str(s.ows());
    }
    if format == 1 {
        // format 1 anchors: a contour holding one named `move` point
        for x in &g.anchors {
            let a = vec![kv("x", s.num(x.x)), kv("y", s.num(x.y)), kv("type", "move".into()), kv("name", x.name.as_ref().unwrap().to_string())];
            ol.push_str(&format!("<contour>{}</contour>", s.tag("point", &a, true)));
        }
    }
    if !ol.is_empty() {
        parts.push(format!("<outline>{}{}</outline>", s.ows(), ol));
    } else if s.r.chance(1, 3) {
        parts.push(if s.r.chance(1, 2) { "<outline/>".to_string() } else { "<outline></outline>".to_string() });
    }
    // lib with the object libs under public.objectLibs
    let mut lib = g.lib.clone();
    let mut olibs = Dictionary::new();
    for x in &g.guidelines {
        if let (Some(l), Some(i)) = (x.lib(), x.identifier()) {
            olibs.insert(i.as_str().to_string(), Value::Dictionary(l.clone()));
        }
    }
    for x in &g.anchors {
        if let (Some(l), Some(i)) = (x.lib(), x.identifier()) {
            olibs.insert(i.as_str().to_string(), Value::Dictionary(l.clone()));
        }
    }
    for c in &g.contours {
        if let (Some(l), Some(i)) = (c.lib(), c.identifier()) {
            olibs.insert(i.as_str().to_string(), Value::Dictionary(l.clone()));
        }
        for p in &c.points {
            if let (Some(l), Some(i)) = (p.lib(), p.identifier()) {
                olibs.insert(i.as_str().to_string(), Value::Dictionary(l.clone()));
            }
        }
    }
    for c in &g.components {
        if let (Some(l), Some(i)) = (c.lib(), c.identifier()) {
            olibs.insert(i.as_str().to_string(), Value::Dictionary(l.clone()));
        }
    }
    if !olibs.is_empty() {
        lib.insert("public.objectLibs".to_string(), Value::Dictionary(olibs));
    }
    if variant == "lib-newline" {
        lib.insert("k".to_string(), Value::String("line1\nline2".to_string()));
    }
    if variant == "cdata-lib" {
        lib.insert("k".to_string(), Value::String(" in cdata ".to_string()));
    }
    if !lib.is_empty() {
        let mut l = String::from("<lib>");
        l.push_str(s.ows());
        s.cdata = cd == "glyphlib" || variant == "cdata-lib";
        render_value(&Value::Dictionary(lib), s, false, &mut l);
        s.cdata = false;
        l.push_str(s.ows());
        l.push_str("</lib>");
        parts.push(l);
    }
    // element order is free in a glif
    for i in (1..parts.len()).rev() {
        let j = s.r.below(i + 1);
        parts.swap(i, j);
    }
    for p in parts {
        o.push_str(s.ows());
        o.push_str(&p);
    }
    o.push_str(s.ows());
    o.push_str("</glyph>");
    o.push_str(s.ows());
    o.into_bytes()
}

/// a glyph that a format-1 glif can express: no note / guidelines / image / identifiers; anchors are named
/// a note laid out the way editors write CDATA notes: on its own lines, indented
pub const CDATA_PADDED: &str = "\nfirst line of the note\n  second line, indented & with <specials>\n";

pub fn mk_glyph_v1(name: &str, tok: &str) -> Glyph {
    let seed: u64 = tok.parse().unwrap();
    let mut r = Rng::new(seed ^ 0x71);
    let mut g = Glyph::new(name);
    g.width = plain_num(&mut r);
    if r.chance(1, 2) {
        g.codepoints = norad::Codepoints::new([*r.pick(&['A', '\u{e9}', '\u{1F600}'])]);
    }
    for _ in 0..r.below(3) {
        let pts = contour_types(&mut r)
            .into_iter()
            .map(|t| {
                let smooth = r.chance(1, 4) && t != PointType::OffCurve;
                ContourPoint::new(plain_num(&mut r), plain_num(&mut r), t, smooth, None, None)
            })
            .collect();
        g.contours.push(Contour::new(pts, None));
    }
    for _ in 0..r.below(2) {
        g.components.push(Component::new(Name::new(&xname(&mut r, &["a"])).unwrap(), norad::AffineTransform::default(), None));
    }
    for _ in 0..r.below(3) {
        g.anchors.push(Anchor::new(
            plain_num(&mut r),
            plain_num(&mut r),
            Some(Name::new(&xname(&mut r, &["top", "bottom", "_top"])).unwrap()),
            None,
            None,
        ));
    }
    if r.chance(1, 3) {
        g.lib = simple_lib(&mut r);
    }
    g
}

// ------------------------------------------------------------------ trees

fn wr(p: &Path, b: &[u8]) {
    if let Some(d) = p.parent() {
        std::fs::create_dir_all(d).unwrap();
    }
    std::fs::write(p, b).unwrap();
}

fn sval(s: &str) -> Value {
    Value::String(s.to_string())
}

/// writes the intended font as a UFO tree of the given format version, without using norad's writers
/// (exception: the key/value table of fontinfo.plist comes from `plist::to_value(&FontInfo)`)
pub fn render_ufo(spec: &Spec, version: u8, dl: usize, s: &mut Surf, dir: &Path) {
    render_ufo_cd(spec, version, dl, s, dir, "")
}

/// `cd`: the part whose text nodes are rendered as CDATA sections: lib | fontinfo | layerlib | note | glyphlib
pub fn render_ufo_cd(spec: &Spec, version: u8, dl: usize, s: &mut Surf, dir: &Path, cd: &str) {
    rm_rf(dir);
    std::fs::create_dir_all(dir).unwrap();
    let font = build(spec);
    let mut meta = Dictionary::new();
    if let Some(c) = &spec.creator {
        meta.insert("creator".into(), sval(c));
    }
    meta.insert("formatVersion".into(), Value::Integer((version as i64).into()));
    if version == 3 && spec.minor != 0 {
        meta.insert("formatVersionMinor".into(), Value::Integer((spec.minor as i64).into()));
    }
    wr(&dir.join("metainfo.plist"), &render_plist(&Value::Dictionary(meta), s, false));
    // lib (+ the global guideline libs under the reserved key)
    let mut lib = spec.lib.clone();
    let mut olibs = Dictionary::new();
    if version == 3 {
        if let Some(gs) = &spec.guides {
            for (id, l, _) in gs {
                if let (Some(id), Some(l)) = (id, l) {
                    olibs.insert(id.clone(), Value::Dictionary(l.clone()));
                }
            }
        }
    }
    if !olibs.is_empty() {
        lib.insert("public.objectLibs".into(), Value::Dictionary(olibs));
    }
    if !lib.is_empty() || s.r.chance(1, 8) {
        s.cdata = cd == "lib";
        wr(&dir.join("lib.plist"), &render_plist(&Value::Dictionary(lib), s, false));
        s.cdata = false;
    }
    // font info
    if version == 3 {
        if !font.font_info.is_empty() || s.r.chance(1, 8) {
            let v = plist::to_value(&font.font_info).unwrap();
            s.cdata = cd == "fontinfo";
            wr(&dir.join("fontinfo.plist"), &render_plist(&v, s, true));
            s.cdata = false;
        }
    } else {
        let mut d = Dictionary::new();
        for (k, b) in &spec.nums {
            if ["ascender", "descender", "capHeight", "xHeight", "italicAngle"].contains(&k.as_str()) {
                d.insert(k.clone(), Value::Real(f64::from_bits(*b)));
            }
        }
        if let Some(u) = spec.upm {
            d.insert("unitsPerEm".into(), Value::Real(f64::from_bits(u)));
        }
        if spec.fi.is_some() {
            d.insert("familyName".into(), sval("Fam \u{e9}"));
            d.insert("styleName".into(), sval("Regular"));
            if version == 2 {
                d.insert("openTypeOS2WeightClass".into(), Value::Integer(400.into()));
                d.insert("postscriptBlueValues".into(), Value::Array(vec![Value::Real(-10.5), Value::Integer(0.into())]));
                d.insert("openTypeHeadCreated".into(), sval("2020/01/31 23:59:59"));
            } else {
                d.insert("fontStyle".into(), Value::Integer(64.into()));
                d.insert("weightValue".into(), Value::Integer(400.into()));
                d.insert("widthName".into(), sval("Medium (normal)"));
            }
        }
        if !d.is_empty() {
            wr(&dir.join("fontinfo.plist"), &render_plist(&Value::Dictionary(d), s, true));
        }
    }
    if !spec.groups.is_empty() || s.r.chance(1, 8) {
        let mut d = Dictionary::new();
        for (g, ns) in &spec.groups {
            // legacy input names its kerning groups the old way
            let name = if version < 3 { g.replace("public.kern1.", "@MMK_L_").replace("public.kern2.", "@MMK_R_") } else { g.clone() };
            d.insert(name, Value::Array(ns.iter().map(|n| sval(n)).collect()));
        }
        wr(&dir.join("groups.plist"), &render_plist(&Value::Dictionary(d), s, false));
    }
    if !spec.kerning.is_empty() || s.r.chance(1, 8) {
        let mut d = Dictionary::new();
        for (a, m) in &spec.kerning {
            let ren = |n: &String| if version < 3 { n.replace("public.kern1.", "@MMK_L_").replace("public.kern2.", "@MMK_R_") } else { n.clone() };
            let mut inner = Dictionary::new();
            for (b, v) in m {
                inner.insert(ren(b), Value::Real(f64::from_bits(*v)));
            }
            d.insert(ren(a), Value::Dictionary(inner));
        }
        wr(&dir.join("kerning.plist"), &render_plist(&Value::Dictionary(d), s, true));
    }
    if (!spec.features.is_empty() || s.r.chance(1, 8)) && version >= 2 {
        wr(&dir.join("features.fea"), spec.features.as_bytes());
    }
    // layers: the file order puts the default layer at position `dl`
    let mut order: Vec<&norad::Layer> = font.layers.iter().skip(1).collect();
    let default = font.layers.default_layer();
    let pos = dl.min(order.len());
    order.insert(pos, default);
    if version < 3 {
        order = vec![default];
    }
    let mut lc = Vec::new();
    for (li, l) in order.iter().enumerate() {
        let dname = if l.is_default() { "glyphs".to_string() } else { format!("glyphs.L{}", li) };
        lc.push(Value::Array(vec![sval(l.name()), sval(&dname)]));
        let ldir = dir.join(&dname);
        std::fs::create_dir_all(&ldir).unwrap();
        let mut contents = Dictionary::new();
        for (gi, g) in l.iter().enumerate() {
            let fname = match s.r.below(4) {
                0 | 1 => l.get_path(g.name()).unwrap().to_string_lossy().to_string(),
                2 => format!("g{}_.glif", gi),
                // the default file name of ANOTHER glyph name (a later insert of that name must not reuse it)
                _ => {
                    let other = *s.r.pick(&["a", "B", "space", "con", "a_", "A_B.alt", "zeta", "\u{c4}*"]);
                    let f = norad::user_name_to_file_name(other, "", ".glif", |_| true).to_string_lossy().to_string();
                    let taken = l.iter().any(|x| {
                        x.name().as_str() == other
                            || l.get_path(x.name()).map(|p| p.to_string_lossy().to_lowercase()) == Some(f.to_lowercase())
                    }) || contents.values().any(|v| v.as_string().map(|x| x.to_lowercase()) == Some(f.to_lowercase()));
                    if taken {
                        format!("g{}_.glif", gi)
                    } else {
                        f
                    }
                }
            };
            contents.insert(g.name().to_string(), sval(&fname));
            let gl = if version < 3 {
                let tok = spec.layers[0].glyphs.iter().find(|(n, _)| n == g.name().as_str()).unwrap().1.clone();
                render_glif(&mk_glyph_v1(g.name(), &tok), 1, s, "plain")
            } else {
                render_glif_cd(g, 2, s, "plain", cd)
            };
            wr(&ldir.join(&fname), &gl);
        }
        wr(&ldir.join("contents.plist"), &render_plist(&Value::Dictionary(contents), s, false));
        if version == 3 && (l.color.is_some() || !l.lib.is_empty()) {
            let mut d = Dictionary::new();
            if let Some(c) = &l.color {
                d.insert("color".into(), sval(&col_str(c)));
            }
            if !l.lib.is_empty() {
                d.insert("lib".into(), Value::Dictionary(l.lib.clone()));
            }
            s.cdata = cd == "layerlib";
            wr(&ldir.join("layerinfo.plist"), &render_plist(&Value::Dictionary(d), s, false));
            s.cdata = false;
        }
    }
    if version == 3 {
        wr(&dir.join("layercontents.plist"), &render_plist(&Value::Array(lc), s, false));
        for (p, b) in &spec.data {
            wr(&dir.join("data").join(p), b);
        }
        for (p, b) in &spec.images {
            wr(&dir.join("images").join(p), b);
        }
    }
}

fn glif_formats(dir: &Path) -> String {
    let mut set = std::collections::BTreeSet::new();
    for (rel, kind, bytes) in snapshot(dir) {
        if kind == 'f' && rel.ends_with(".glif") {
            let t = String::from_utf8_lossy(&bytes).to_string();
            let f = t.split("format=\"").nth(1).and_then(|x| x.split('"').next()).unwrap_or("?").to_string();
            let minor = if t.contains("formatMinor=") { "+minor" } else { "" };
            set.insert(format!("{}{}", f, minor));
        }
    }
    set.into_iter().collect::<Vec<_>>().join("+")
}

/// load(x), save, load again
fn observe_tree(src: &Path, intended: Option<&Spec>, scratch: &Path) -> String {
    observe_tree_with(src, intended, scratch, "absent", "")
}

/// `target`: what the save destination holds beforehand (c01::prepare_target); `edits`: glyphs inserted through
/// the public API between the first load and the save (`<layer index>.<hex name>.<seed>,...`)
fn observe_tree_with(src: &Path, intended: Option<&Spec>, scratch: &Path, target: &str, edits: &str) -> String {
    let mut l1 = match guarded(|| Font::load(src)) {
        Ok(Ok(f)) => f,
        Ok(Err(e)) => return format!("l1=err:{}", variant(&format!("{:?}", e))),
        Err(_) => return "l1=panic".to_string(),
    };
    let mut intended = intended;
    if !edits.is_empty() {
        intended = None;
        for op in edits.split(',') {
            let p: Vec<&str> = op.split('.').collect();
            let li: usize = p[0].parse().unwrap();
            let name = String::from_utf8(unhex(p[1])).unwrap();
            if let Some(layer) = l1.layers.iter_mut().nth(li) {
                layer.insert_glyph(mk_glyph(&name, p[2]));
            }
        }
    }
    let d1 = match intended {
        Some(sp) => match guarded(|| build(sp)) {
            Ok(b) => describe_ref(&l1, sp, &b),
            Err(_) => describe_fresh(&l1),
        },
        None => describe_fresh(&l1),
    };
    let mut out = vec!["l1=ok".to_string()];
    out.extend(font_tokens(&d1));
    out.push(format!("pre={}", paths(&l1)));
    out.push(format!("pt={}", point_stats(l1.layers.iter().flat_map(|l| l.iter()))));
    out.push("|".to_string());
    let dst = scratch.join("c04-out.ufo");
    prepare_target(&dst, target);
    let save = match guarded(|| l1.save(&dst)) {
        Ok(Ok(())) => "ok".to_string(),
        Ok(Err(e)) => format!("err:{}", variant(&format!("{:?}", e))),
        Err(_) => "panic".to_string(),
    };
    out.push(format!("save={}", save));
    if save != "ok" {
        rm_rf(&dst);
        out.push("load=skipped".into());
        return out.join(" ");
    }
    let w = written(&dst);
    let gf = glif_formats(&dst);
    match guarded(|| Font::load(&dst)) {
        Ok(Ok(l2)) => {
            out.push("load=ok".into());
            out.extend(w);
            out.push(format!("gf={}", gf));
            let d2 = describe_ref(&l2, &d1, &l1);
            out.extend(font_tokens(&d2));
            out.push(format!("post={}", paths(&l2)));
            out.push(format!("cmp={}", compare(&d1, &d2)));
        }
        Ok(Err(e)) => {
            out.push(format!("load=err:{}", variant(&format!("{:?}", e))));
            out.extend(w);
        }
        Err(_) => {
            out.push("load=panic".into());
            out.extend(w);
        }
    }
    rm_rf(&dst);
    out.join(" ")
}

fn copy_tree(src: &Path, dst: &Path) {
    rm_rf(dst);
    for (rel, kind, bytes) in snapshot(src) {
        let p = if rel.is_empty() { dst.to_path_buf() } else { dst.join(&rel) };
        match kind {
            'd' => std::fs::create_dir_all(&p).unwrap(),
            'f' => wr(&p, &bytes),
            _ => {}
        }
    }
}

fn testdata_root() -> PathBuf {
    // the norad checkout the harness is built against: the path dependency of this crate's manifest
    let manifest = std::fs::read_to_string(Path::new(env!("CARGO_MANIFEST_DIR")).join("Cargo.toml")).unwrap_or_default();
    let dir = manifest
        .lines()
        .find(|l| l.starts_with("norad"))
        .and_then(|l| l.split("path = \"").nth(1))
        .and_then(|x| x.split('"').next())
        .unwrap_or("/repo")
        .to_string();
    PathBuf::from(dir).join("testdata")
}

fn observe_glif(xml: &[u8], intended: Option<&Glyph>) -> String {
    let g1 = match guarded(|| Glyph::parse_raw(xml)) {
        Ok(Ok(g)) => g,
        Ok(Err(_)) => return "p1=err".to_string(),
        Err(_) => return "p1=panic".to_string(),
    };
    let a = match intended {
        Some(i) => {
            if glyph_eq(i, &g1) {
                "1"
            } else {
                "0"
            }
        }
        None => "-",
    };
    // the note of the first load, and whether everything but the note is as intended
    let n1 = g1.note.as_ref().map(|n| hexs(n)).unwrap_or("~".to_string());
    let ax = match intended {
        Some(i) => {
            let mut j = g1.clone();
            j.note = i.note.clone();
            if glyph_eq(i, &j) {
                "1"
            } else {
                "0"
            }
        }
        None => "-",
    };
    let a = format!("{} n1={} ax={}", a, n1, ax);
    let enc = match guarded(|| g1.encode_xml()) {
        Ok(Ok(b)) => b,
        Ok(Err(_)) => return format!("p1=ok a={} enc=err", a),
        Err(_) => return format!("p1=ok a={} enc=panic", a),
    };
    let t = String::from_utf8_lossy(&enc).to_string();
    let fmt = t.split("format=\"").nth(1).and_then(|x| x.split('"').next()).unwrap_or("?").to_string();
    let minor = if t.contains("formatMinor=") { "+minor" } else { "" };
    match guarded(|| Glyph::parse_raw(&enc)) {
        Ok(Ok(g2)) => format!(
            "p1=ok a={} enc=ok fmt={}{} p2=ok fix={} n2={}",
            a,
            fmt,
            minor,
            if glyph_eq(&g1, &g2) { 1 } else { 0 },
            g2.note.as_ref().map(|n| hexs(n)).unwrap_or("~".to_string())
        ),
        Ok(Err(_)) => format!("p1=ok a={} enc=ok fmt={}{} p2=err", a, fmt, minor),
        Err(_) => format!("p1=ok a={} enc=ok fmt={}{} p2=panic", a, fmt, minor),
    }
}


// ------------------------------------------------------------------ structure-aware mutation of existing files

#[derive(Clone, Debug, PartialEq)]
enum Tok {
    /// `<name attrs>` / `<name attrs/>`: name, attributes (name, value, quote), self-closing
    Open(String, Vec<(String, String, char)>, bool),
    Close(String),
    Text(String),
    /// comments, processing instructions, DOCTYPE, CDATA: kept verbatim
    Other(String),
}

fn tokenize(src: &str) -> Option<Vec<Tok>> {
    let b: Vec<char> = src.chars().collect();
    let mut i = 0;
    let mut out = Vec::new();
    let starts = |i: usize, pat: &str| -> bool { pat.chars().enumerate().all(|(k, c)| b.get(i + k) == Some(&c)) };
    while i < b.len() {
        if b[i] != '<' {
            let j = (i..b.len()).find(|&j| b[j] == '<').unwrap_or(b.len());
            out.push(Tok::Text(b[i..j].iter().collect()));
            i = j;
            continue;
        }
        let (endpat, _kind) = if starts(i, "<!--") {
            ("-->", 0)
        } else if starts(i, "<![CDATA[") {
            ("]]>", 0)
        } else if starts(i, "<?") {
            ("?>", 0)
        } else if starts(i, "<!") {
            (">", 0)
        } else {
            ("", 1)
        };
        if !endpat.is_empty() {
            let mut j = i;
            while j < b.len() && !starts(j, endpat) {
                j += 1;
            }
            if j >= b.len() {
                return None;
            }
            j += endpat.len();
            out.push(Tok::Other(b[i..j].iter().collect()));
            i = j;
            continue;
        }
        // a tag: scan to '>' outside quotes
        let mut j = i + 1;
        let mut q: Option<char> = None;
        while j < b.len() {
            match q {
                Some(c) => {
                    if b[j] == c {
                        q = None
                    }
                }
                None => {
                    if b[j] == '"' || b[j] == '\'' {
                        q = Some(b[j])
                    } else if b[j] == '>' {
                        break;
                    }
                }
            }
            j += 1;
        }
        if j >= b.len() {
            return None;
        }
        let inner: String = b[i + 1..j].iter().collect();
        i = j + 1;
        if let Some(name) = inner.strip_prefix('/') {
            out.push(Tok::Close(name.trim().to_string()));
            continue;
        }
        let (inner, selfclose) = match inner.strip_suffix('/') {
            Some(x) => (x.to_string(), true),
            None => (inner, false),
        };
        let cs: Vec<char> = inner.chars().collect();
        let mut k = 0;
        while k < cs.len() && !cs[k].is_whitespace() {
            k += 1;
        }
        let name: String = cs[..k].iter().collect();
        let mut attrs = Vec::new();
        loop {
            while k < cs.len() && cs[k].is_whitespace() {
                k += 1;
            }
            if k >= cs.len() {
                break;
            }
            let s0 = k;
            while k < cs.len() && cs[k] != '=' && !cs[k].is_whitespace() {
                k += 1;
            }
            let an: String = cs[s0..k].iter().collect();
            while k < cs.len() && cs[k].is_whitespace() {
                k += 1;
            }
            if k >= cs.len() || cs[k] != '=' {
                return None;
            }
            k += 1;
            while k < cs.len() && cs[k].is_whitespace() {
                k += 1;
            }
            if k >= cs.len() || (cs[k] != '"' && cs[k] != '\'') {
                return None;
            }
            let qc = cs[k];
            k += 1;
            let v0 = k;
            while k < cs.len() && cs[k] != qc {
                k += 1;
            }
            if k >= cs.len() {
                return None;
            }
            attrs.push((an, cs[v0..k].iter().collect::<String>(), qc));
            k += 1;
        }
        out.push(Tok::Open(name, attrs, selfclose));
    }
    Some(out)
}

fn untokenize(toks: &[Tok], r: &mut Rng, loose: bool) -> String {
    let mut o = String::new();
    for t in toks {
        match t {
            Tok::Open(n, attrs, sc) => {
                o.push('<');
                o.push_str(n);
                for (k, v, q) in attrs {
                    o.push_str(if loose { *r.pick(&[" ", " ", "  ", "\n", "\t", "\n    "]) } else { " " });
                    o.push_str(&format!("{}={}{}{}", k, q, v, q));
                }
                if loose {
                    o.push_str(*r.pick(&["", "", " ", "\n"]));
                }
                o.push_str(if *sc { "/>" } else { ">" });
            }
            Tok::Close(n) => o.push_str(&format!("</{}>", n)),
            Tok::Text(s) | Tok::Other(s) => o.push_str(s),
        }
    }
    o
}

const NUMERIC_ATTRS: [&str; 12] =
    ["x", "y", "width", "height", "angle", "xScale", "xyScale", "yxScale", "yScale", "xOffset", "yOffset", "hex_"];

/// applies a random subset of the mutation classes; returns the new text, the classes applied and whether
/// all of them preserve the meaning of the file
pub fn mutate_xml(src: &str, seed: u64, is_glif: bool) -> Option<(String, Vec<&'static str>, bool)> {
    let mut r = Rng::new(seed ^ 0x3c7);
    let mut toks = tokenize(src)?;
    let mut classes: Vec<&'static str> = Vec::new();
    let mut preserving = true;
    let pick = |r: &mut Rng| r.chance(1, 2);
    // 1/2: attribute order and quotes
    if pick(&mut r) {
        classes.push("attr-order");
        for t in toks.iter_mut() {
            if let Tok::Open(_, attrs, _) = t {
                for i in (1..attrs.len()).rev() {
                    let j = r.below(i + 1);
                    attrs.swap(i, j);
                }
            }
        }
    }
    if pick(&mut r) {
        classes.push("quotes");
        for t in toks.iter_mut() {
            if let Tok::Open(_, attrs, _) = t {
                for a in attrs.iter_mut() {
                    let other = if a.2 == '"' { '\'' } else { '"' };
                    if !a.1.contains(other) && r.chance(1, 2) {
                        a.2 = other;
                    }
                }
            }
        }
    }
    // 5: numeric spellings
    if pick(&mut r) {
        classes.push("numbers");
        let mut in_num: Option<String> = None;
        for t in toks.iter_mut() {
            match t {
                Tok::Open(n, attrs, _) => {
                    if is_glif {
                        for a in attrs.iter_mut() {
                            if NUMERIC_ATTRS.contains(&a.0.as_str()) {
                                if let Ok(v) = a.1.parse::<f64>() {
                                    if v.is_finite() {
                                        a.1 = respell(v, &mut r);
                                    }
                                }
                            }
                        }
                    }
                    in_num = if n == "real" || n == "integer" { Some(n.clone()) } else { None };
                }
                Tok::Text(s) => {
                    if let Some(kind) = &in_num {
                        if kind == "real" {
                            if let Ok(v) = s.trim().parse::<f64>() {
                                if v.is_finite() {
                                    *s = respell(v, &mut r);
                                }
                            }
                        } else if let Ok(v) = s.trim().parse::<i64>() {
                            *s = if v >= 0 && r.chance(1, 3) { format!("+{}", v) } else { format!("{}", v) };
                        }
                    }
                    in_num = None;
                }
                _ => in_num = None,
            }
        }
    }
    // 6: order of the children of <glyph> (same-named siblings keep their relative order)
    if is_glif && pick(&mut r) {
        if let Some(t2) = reorder_children(&toks, &mut r) {
            classes.push("reorder");
            toks = t2;
        }
    }
    // 7: one optional child removed (changes the meaning)
    if r.chance(1, 4) {
        if let Some(t2) = remove_child(&toks, &mut r, if is_glif { "glyph" } else { "dict" }) {
            classes.push("removed");
            preserving = false;
            toks = t2;
        }
    }
    // 4: comments and blanks between elements
    if pick(&mut r) {
        classes.push("comments");
        let mut out = Vec::new();
        for i in 0..toks.len() {
            out.push(toks[i].clone());
            let between = match (&toks[i], toks.get(i + 1), toks.get(i + 2)) {
                // whitespace-only text between two tags that are not the start and end of one leaf element
                (a, Some(Tok::Text(s)), Some(b)) if s.trim().is_empty() => match (a, b) {
                    (Tok::Open(_, _, false), Tok::Close(_)) => false,
                    (Tok::Open(..), _) | (Tok::Close(_), _) => true,
                    _ => false,
                },
                _ => false,
            };
            // never before the root element's start in a glif prolog position 0, never inside <note>/<string>
            let inside_text_elem = matches!(&toks[i], Tok::Open(n, _, false) if ["note", "string", "key", "integer", "real", "data", "date"].contains(&n.as_str()));
            if between && !inside_text_elem && r.chance(1, 4) {
                out.push(Tok::Other(r.pick(&["<!-- m -->", "\n\n", "<!--x--> <!-- y -->", "\t"]).to_string()));
            }
        }
        toks = out;
    }
    // 3: blanks inside tags
    let loose = pick(&mut r);
    if loose {
        classes.push("blanks");
    }
    let mut text = untokenize(&toks, &mut r, loose);
    // 8: declaration / BOM
    if r.chance(1, 4) {
        classes.push("prolog");
        if let Some(rest) = text.strip_prefix('\u{feff}') {
            text = rest.to_string();
        } else if r.chance(1, 2) {
            text = format!("{}{}", '\u{feff}', text);
        }
        if text.trim_start_matches('\u{feff}').starts_with("<?xml") && r.chance(1, 2) {
            let bom = text.starts_with('\u{feff}');
            let t = text.trim_start_matches('\u{feff}');
            let end = t.find("?>").unwrap() + 2;
            text = format!("{}{}{}", if bom { "\u{feff}" } else { "" }, r.pick(&["<?xml version='1.0' encoding='UTF-8'?>", "<?xml version=\"1.0\" encoding=\"utf-8\" standalone=\"yes\"?>", ""]), &t[end..]);
        }
    }
    Some((text, classes, preserving))
}

fn respell(v: f64, r: &mut Rng) -> String {
    match r.below(5) {
        0 if v.fract() == 0.0 && v.abs() < 1e15 => format!("{:.1}", v),
        1 => format!("{:e}", v),
        2 if v >= 0.0 => format!("+{}", v),
        3 if v.fract() == 0.0 && v.abs() < 1e15 => format!("{:.3}", v),
        _ => format!("{}", v),
    }
}

/// spans (start, end exclusive) of the children of the first element called `parent`
fn child_spans(toks: &[Tok], parent: &str) -> Option<(usize, usize, Vec<(usize, usize, String)>)> {
    let p0 = toks.iter().position(|t| matches!(t, Tok::Open(n, _, false) if n == parent))?;
    let mut depth = 0usize;
    let mut spans = Vec::new();
    let mut cur: Option<(usize, String)> = None;
    let mut i = p0 + 1;
    while i < toks.len() {
        match &toks[i] {
            Tok::Open(n, _, sc) => {
                if depth == 0 {
                    if *sc {
                        spans.push((i, i + 1, n.clone()));
                    } else {
                        cur = Some((i, n.clone()));
                        depth = 1;
                    }
                } else if !*sc {
                    depth += 1;
                }
            }
            Tok::Close(_) => {
                if depth == 0 {
                    return Some((p0, i, spans));
                }
                depth -= 1;
                if depth == 0 {
                    let (s0, n) = cur.take()?;
                    spans.push((s0, i + 1, n));
                }
            }
            _ => {}
        }
        i += 1;
    }
    None
}

fn reorder_children(toks: &[Tok], r: &mut Rng) -> Option<Vec<Tok>> {
    let (p0, pend, spans) = child_spans(toks, "glyph")?;
    if spans.len() < 2 {
        return None;
    }
    // a permutation that keeps the relative order of equally named children
    let mut order: Vec<usize> = (0..spans.len()).collect();
    for i in (1..order.len()).rev() {
        let j = r.below(i + 1);
        order.swap(i, j);
    }
    let mut by_name: std::collections::BTreeMap<String, Vec<usize>> = Default::default();
    for (k, s) in spans.iter().enumerate() {
        by_name.entry(s.2.clone()).or_default().push(k);
    }
    let mut next: std::collections::BTreeMap<String, usize> = Default::default();
    let mut out: Vec<Tok> = toks[..=p0].to_vec();
    for k in order {
        let name = &spans[k].2;
        let idx = next.entry(name.clone()).or_insert(0);
        let real = by_name[name][*idx];
        *idx += 1;
        out.push(Tok::Text("\n  ".to_string()));
        out.extend_from_slice(&toks[spans[real].0..spans[real].1]);
    }
    out.push(Tok::Text("\n".to_string()));
    out.extend_from_slice(&toks[pend..]);
    Some(out)
}

fn remove_child(toks: &[Tok], r: &mut Rng, parent: &str) -> Option<Vec<Tok>> {
    let (_, _, spans) = child_spans(toks, parent)?;
    if spans.is_empty() {
        return None;
    }
    if parent == "dict" {
        // a key and its value
        let keys: Vec<usize> = (0..spans.len()).filter(|k| spans[*k].2 == "key" && k + 1 < spans.len()).collect();
        if keys.is_empty() {
            return None;
        }
        let k = *r.pick(&keys);
        let mut out = toks[..spans[k].0].to_vec();
        out.extend_from_slice(&toks[spans[k + 1].1..]);
        Some(out)
    } else {
        let k = r.below(spans.len());
        let mut out = toks[..spans[k].0].to_vec();
        out.extend_from_slice(&toks[spans[k].1..]);
        Some(out)
    }
}

fn observe_mutglif(rel: &str, seed: u64) -> String {
    let orig = match std::fs::read(testdata_root().join(rel)) {
        Ok(b) => b,
        Err(_) => return "p1=missing".to_string(),
    };
    let text = match String::from_utf8(orig.clone()) {
        Ok(t) => t,
        Err(_) => return "p1=missing".to_string(),
    };
    let (m, classes, preserving) = match mutate_xml(&text, seed, true) {
        Some(x) => x,
        None => return "p1=missing".to_string(),
    };
    let base = observe_glif(m.as_bytes(), None);
    let sem = if preserving {
        match (guarded(|| Glyph::parse_raw(&orig)), guarded(|| Glyph::parse_raw(m.as_bytes()))) {
            (Ok(Ok(a)), Ok(Ok(b))) => {
                if glyph_eq(&a, &b) {
                    "1"
                } else {
                    "0"
                }
            }
            (Ok(Ok(_)), _) => "rejected",
            _ => "-",
        }
    } else {
        "-"
    };
    format!("{} mc={} sem={}", base, if classes.is_empty() { "none".to_string() } else { classes.join("+") }, sem)
}

fn observe_mutufo(rel: &str, seed: u64, scratch: &Path) -> String {
    let src = scratch.join("c04-in.ufo");
    copy_tree(&testdata_root().join(rel), &src);
    let orig = guarded(|| Font::load(&src));
    let mut r = Rng::new(seed ^ 0x77);
    let mut files: Vec<String> = snapshot(&src)
        .into_iter()
        .filter(|(rel, kind, _)| *kind == 'f' && (rel.ends_with(".plist") || rel.ends_with(".glif")))
        .map(|(rel, _, _)| rel)
        .collect();
    files.sort();
    let mut classes: Vec<&'static str> = Vec::new();
    let mut preserving = true;
    let n = 1 + r.below(4);
    for _ in 0..n {
        if files.is_empty() {
            break;
        }
        let f = r.pick(&files).clone();
        let p = src.join(&f);
        if let Ok(text) = std::fs::read_to_string(&p) {
            // contents.plist / layercontents.plist entries are not "optional": only meaning-preserving classes there
            if let Some((m, cs, pres)) = mutate_xml(&text, r.next(), f.ends_with(".glif")) {
                if !pres && (f.ends_with("contents.plist") || f.ends_with("metainfo.plist")) {
                    continue;
                }
                std::fs::write(&p, m).unwrap();
                for c in cs {
                    if !classes.contains(&c) {
                        classes.push(c);
                    }
                }
                preserving &= pres;
            }
        }
    }
    let sem = if preserving {
        match (orig, guarded(|| Font::load(&src))) {
            (Ok(Ok(a)), Ok(Ok(b))) => {
                // content hashes of every part (glyph hashes see the order of the code points, `==` does not)
                if a == b && font_tokens(&describe_fresh(&a)) == font_tokens(&describe_fresh(&b)) {
                    "1"
                } else {
                    "0"
                }
            }
            (Ok(Ok(_)), _) => "rejected",
            _ => "-",
        }
    } else {
        "-"
    };
    let base = observe_tree(&src, None, scratch);
    rm_rf(&src);
    format!("{} mc={} sem={}", base, if classes.is_empty() { "none".to_string() } else { classes.join("+") }, sem)
}

fn field<'a>(toks: &[&'a str], k: &str) -> &'a str {
    toks.iter().find(|t| t.starts_with(&format!("{}=", k))).map(|t| &t[k.len() + 1..]).unwrap_or("")
}

pub fn observe(toks: &[&str], scratch: &Path) -> String {
    match toks[0] {
        "ufo" | "edit" => {
            let v: u8 = field(toks, "v").parse().unwrap();
            let seed: u64 = field(toks, "s").parse().unwrap();
            let dl: usize = field(toks, "dl").parse().unwrap();
            let spec = parse_spec(&toks[4..]);
            let src = scratch.join("c04-in.ufo");
            let mut s = Surf::new(seed);
            let cd = field(toks, "cd").to_string();
            if let Err(m) = guarded(|| render_ufo_cd(&spec, v, dl, &mut s, &src, &cd)) {
                return format!("render=panic:{}", hexs(&m));
            }
            let target = if field(toks, "t").is_empty() { "absent" } else { field(toks, "t") };
            let r = observe_tree_with(&src, if v == 3 { Some(&spec) } else { None }, scratch, target, field(toks, "e"));
            rm_rf(&src);
            r
        }
        "testdata" => {
            let rel = String::from_utf8(unhex(field(toks, "p"))).unwrap();
            let src = scratch.join("c04-in.ufo");
            copy_tree(&testdata_root().join(&rel), &src);
            let target = if field(toks, "t").is_empty() { "absent" } else { field(toks, "t") };
            let r = observe_tree_with(&src, None, scratch, target, "");
            rm_rf(&src);
            r
        }
        "glif" => {
            let f: u8 = field(toks, "f").parse().unwrap();
            let g = field(toks, "g");
            let seed: u64 = field(toks, "s").parse().unwrap();
            let x = field(toks, "x");
            let mut intended = if f == 1 { mk_glyph_v1("a", g) } else { mk_glyph("a", g) };
            // what the document says, for the rarely generated accepted-but-altered inputs
            match x {
                "cdata-note" => intended.note = Some("kept & <verbatim>".to_string()),
                "cdata-note-padded" => intended.note = Some(CDATA_PADDED.to_string()),
                // an empty or blank note says "no note"
                "cdata-note-empty" | "cdata-note-blank" => intended.note = None,
                "cdata-note-mixed" => intended.note = Some("text  cd & <x>  more".to_string()),
                "cdata-note-twice" => intended.note = Some("one  two".to_string()),
                "cdata-lib" => {
                    intended.lib.insert("k".to_string(), Value::String(" in cdata ".to_string()));
                }
                "comment-note" => intended.note = Some("ab".to_string()),
                "width-1e400" => intended.width = f64::INFINITY,
                "lib-newline" => {
                    intended.lib.insert("k".to_string(), Value::String("line1\nline2".to_string()));
                }
                _ => {}
            }
            let mut s = Surf::new(seed);
            let xml = render_glif(&intended, f, &mut s, x);
            format!("{} pt={}", observe_glif(&xml, Some(&intended)), point_stats(std::iter::once(&intended)))
        }
        "special" => {
            // hand-written trees for the recorded font-level findings
            let src = scratch.join("c04-in.ufo");
            rm_rf(&src);
            let hdr = "<?xml version=\"1.0\" encoding=\"UTF-8\"?>\n<plist version=\"1.0\">";
            wr(&src.join("metainfo.plist"), format!("{}<dict><key>creator</key><string>x</string><key>formatVersion</key><integer>3</integer></dict></plist>", hdr).as_bytes());
            wr(&src.join("layercontents.plist"), format!("{}<array><array><string>public.default</string><string>glyphs</string></array></array></plist>", hdr).as_bytes());
            wr(&src.join("glyphs/contents.plist"), format!("{}<dict/></plist>", hdr).as_bytes());
            match field(toks, "x") {
                "objlibs-no-fontinfo" => wr(&src.join("lib.plist"), format!("{}<dict><key>public.objectLibs</key><dict><key>g1</key><dict><key>k</key><string>v</string></dict></dict><key>other</key><integer>1</integer></dict></plist>", hdr).as_bytes()),
                _ => {}
            }
            let r = observe_tree(&src, None, scratch);
            rm_rf(&src);
            r
        }
        "mutglif" => {
            let rel = String::from_utf8(unhex(field(toks, "p"))).unwrap();
            observe_mutglif(&rel, field(toks, "s").parse().unwrap())
        }
        "mutufo" => {
            let rel = String::from_utf8(unhex(field(toks, "p"))).unwrap();
            observe_mutufo(&rel, field(toks, "s").parse().unwrap(), scratch)
        }
        "glifdata" => {
            let rel = String::from_utf8(unhex(field(toks, "p"))).unwrap();
            match std::fs::read(testdata_root().join(&rel)) {
                Ok(b) => observe_glif(&b, None),
                Err(_) => "p1=missing".to_string(),
            }
        }
        _ => "bad-kind".to_string(),
    }
}

/// one generated tree case; `v3_edit_only`: a format-3 tree that is loaded, edited through the API, saved and loaded
/// (the C01 generator runs these too: a font "built through the public API" may start from a load)
pub fn emit_tree_case(rng: &mut Rng, i: usize, v3_edit_only: bool, out: &mut dyn Write, scratch: &Path) {
        let mut spec = gen_spec(rng, if i % 40 == 7 { 8 } else { i % 40 }); // no tiny numbers here (C01 owns that finding)
        let v = if v3_edit_only { 3 } else { *rng.pick(&[3u8, 3, 3, 3, 2, 1]) };
        if v < 3 {
            // what a format 1/2 tree can hold
            spec.layers.truncate(1);
            spec.layers[0].name = "public.default".into();
            spec.layers[0].color = None;
            spec.layers[0].lib = Dictionary::new();
            spec.guides = None;
            spec.data.clear();
            spec.images.clear();
            spec.minor = 0;
            spec.nums.retain(|(k, _)| !k.contains('.'));
            if let Some(u) = spec.upm {
                if f64::from_bits(u) == 0.0 && f64::from_bits(u).is_sign_negative() {
                    spec.upm = None;
                }
            }
        }
        let dl = rng.below(4);
        // one case in four: load, insert glyphs through the API (names that are the stems of foreign file names,
        // pool names, clashing names), save, load
        let edit = v3_edit_only || i % 4 == 3;
        let mut toks = vec![
            if edit { "edit".to_string() } else { "ufo".to_string() },
            format!("v={}", v),
            format!("s={}", rng.next() % 1_000_000),
            format!("dl={}", dl),
        ];
        toks.push(format!("t={}", rng.pick(&["absent", "empty", "ufo", "ufo", "ufojunk", "partial", "junk"])));
        // rarely, tagged: the text nodes of one part written as CDATA sections
        if v == 3 && !edit && i % 12 == 5 {
            toks.push(format!("cd={}", rng.pick(&["lib", "fontinfo", "layerlib", "note", "glyphlib"])));
        }
        if edit {
            let mut ops = Vec::new();
            for _ in 0..1 + rng.below(4) {
                let name = match rng.below(4) {
                    0 => format!("g{}_", rng.below(4)),
                    1 => rng.pick(&["a", "B", "space", "con", "a_", "A_B.alt", "zeta", "\u{c4}*"]).to_string(),
                    2 => {
                        let grp = *rng.pick(&CLASHES);
                        rng.pick(grp).to_string()
                    }
                    _ => xname(rng, &["a", "A", "B", ".notdef", "\u{e9}"]),
                };
                ops.push(format!("{}.{}.{}", rng.below(3), hexs(&name), 1 + rng.next() % 1_000_000));
            }
            toks.push(format!("e={}", ops.join(",")));
        }
        toks.extend(font_tokens(&spec));
        emit(out, scratch, &toks);
}

fn emit(out: &mut dyn Write, scratch: &Path, toks: &[String]) {
    let refs: Vec<&str> = toks.iter().map(|x| x.as_str()).collect();
    let obs = observe(&refs, scratch);
    writeln!(out, "C04 {} => {}", toks.join(" "), obs).unwrap();
}

pub fn gen(tier: &str, seed: u64, out: &mut dyn Write) {
    let scratch: PathBuf = scratch_root().join("c04");
    std::fs::create_dir_all(&scratch).unwrap();
    let mut rng = Rng::new(seed ^ 0xc04);
    // the repository's own inputs
    let root = testdata_root();
    let mut ufos = Vec::new();
    let mut glifs = Vec::new();
    for (rel, kind, _) in snapshot(&root) {
        if kind == 'f' && rel.ends_with("metainfo.plist") {
            ufos.push(rel.trim_end_matches("metainfo.plist").trim_end_matches('/').to_string());
        }
        if kind == 'f' && rel.ends_with(".glif") {
            glifs.push(rel);
        }
    }
    for u in &ufos {
        emit(out, &scratch, &["testdata".to_string(), format!("p={}", hexs(u))]);
        // the same, saved over a directory that already holds a bigger norad-written UFO / the remains of one
        for t in ["ufo", "partial", "ufojunk"] {
            emit(out, &scratch, &["testdata".to_string(), format!("p={}", hexs(u)), format!("t={}", t)]);
        }
    }
    for g in &glifs {
        emit(out, &scratch, &["glifdata".to_string(), format!("p={}", hexs(g))]);
    }
    // structure-aware mutations of the repository's own files that still load
    let (mg, mu) = if tier == "thorough" { (400, 150) } else { (25, 8) };
    for g in &glifs {
        for _ in 0..mg {
            emit(out, &scratch, &["mutglif".to_string(), format!("p={}", hexs(g)), format!("s={}", rng.next() % 1_000_000)]);
        }
    }
    for u in &ufos {
        for _ in 0..mu {
            emit(out, &scratch, &["mutufo".to_string(), format!("p={}", hexs(u)), format!("s={}", rng.next() % 1_000_000)]);
        }
    }
    // generated trees
    let n = if tier == "thorough" { 12_000 } else { 500 };
    for i in 0..n {
        emit_tree_case(&mut rng, i, false, out, &scratch);
    }
    // generated glif documents
    let m = if tier == "thorough" { 60_000 } else { 4_000 };
    for i in 0..m {
        let f = if rng.chance(1, 4) { 1 } else { 2 };
        let x = if f == 2 && i % 47 == 5 {
            *rng.pick(&[
                "cdata-note", "comment-note", "width-1e400", "lib-newline", "cdata-note-padded", "cdata-note-empty",
                "cdata-note-blank", "cdata-note-mixed", "cdata-note-twice", "cdata-lib",
            ])
        } else {
            "plain"
        };
        let toks = vec![
            "glif".to_string(),
            format!("f={}", f),
            format!("g={}", 1 + rng.next() % 1_000_000),
            format!("s={}", rng.next() % 1_000_000),
            format!("x={}", x),
        ];
        emit(out, &scratch, &toks);
    }
    rm_rf(&scratch);
}
