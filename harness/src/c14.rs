//! C14: format 1 / 2 font info is converted to format 3 as the specification prescribes.
//!
//! line: `C14 <fmt> <legacy attr>=<typed value>.. [lib=1] [hint=1] [H.<entry>=<typed>].. [classes=<hex>]
//!        [order=<hex,..>] [feat=<hexkey>:<hextext>;..] [libkey=<hex>].. [fea=<hex>]
//!        => ok fmt=<n> val=<ok|err> save=<ok|err> feat=<hex> lib=<hexkey,..> | <v3 attr>=<typed>..  |  err:<class> | panic`
//! typed value: f:<16 hex bits> i:<int> s:<hex> b:<0|1> l:<bits,..> il:<int,..> ll:<bits,bits;bits,..>
//! A generated UFO tree (metainfo.plist, fontinfo.plist, optional lib.plist / features.fea, glyphs/contents.plist,
//! no layercontents.plist) is loaded with `Font::load`; every field of the resulting FontInfo is printed.
use crate::c13::{base_tree, xml_escape, PLIST_HEAD};
use crate::common::*;
use crate::fi_fields;
use crate::legacy_fields;
use crate::rng::Rng;
use norad::Font;
use std::io::Write;
use std::path::PathBuf;

#[derive(Clone, Debug)]
pub enum Val {
    F(f64),
    I(i64),
    S(String),
    B(bool),
    L(Vec<f64>),
    IL(Vec<i64>),
    LL(Vec<Vec<f64>>),
}

fn fl(v: &[f64]) -> String {
    if v.is_empty() {
        "-".into()
    } else {
        v.iter().map(|x| f64bits(*x)).collect::<Vec<_>>().join(",")
    }
}

impl Val {
    fn token(&self) -> String {
        match self {
            Val::F(x) => format!("f:{}", f64bits(*x)),
            Val::I(z) => format!("i:{}", z),
            Val::S(s) => format!("s:{}", hexs(s)),
            Val::B(b) => format!("b:{}", *b as u8),
            Val::L(v) => format!("l:{}", fl(v)),
            Val::IL(v) => format!(
                "il:{}",
                if v.is_empty() { "-".to_string() } else { v.iter().map(|x| x.to_string()).collect::<Vec<_>>().join(",") }
            ),
            Val::LL(v) => format!(
                "ll:{}",
                if v.is_empty() {
                    "-".to_string()
                } else {
                    v.iter().map(|r| if r.is_empty() { "_".to_string() } else { fl(r) }).collect::<Vec<_>>().join(";")
                }
            ),
        }
    }
    fn parse(s: &str) -> Val {
        let (t, v) = s.split_once(':').unwrap();
        let bits = |b: &str| f64::from_bits(u64::from_str_radix(b, 16).unwrap());
        let list = |v: &str| -> Vec<f64> { if v == "-" { vec![] } else { v.split(',').map(bits).collect() } };
        match t {
            "f" => Val::F(bits(v)),
            "i" => Val::I(v.parse().unwrap()),
            "s" => Val::S(String::from_utf8(unhex(v)).unwrap()),
            "b" => Val::B(v == "1"),
            "l" => Val::L(list(v)),
            "il" => Val::IL(if v == "-" { vec![] } else { v.split(',').map(|x| x.parse().unwrap()).collect() }),
            "ll" => Val::LL(if v == "-" {
                vec![]
            } else {
                v.split(';').map(|r| if r == "_" { vec![] } else { list(r) }).collect()
            }),
            _ => panic!("bad value {}", s),
        }
    }
    fn num_xml(x: f64) -> String {
        // an integral value is written as <integer>, as other UFO writers do; everything else as <real>
        if x.is_finite() && x.fract() == 0.0 && x.abs() < 9.0e15 && !(x == 0.0 && x.is_sign_negative()) {
            format!("<integer>{}</integer>", x as i64)
        } else if x.is_nan() {
            "<real>nan</real>".to_string()
        } else if x.is_infinite() {
            format!("<real>{}inf</real>", if x < 0.0 { "-" } else { "" })
        } else {
            format!("<real>{:?}</real>", x)
        }
    }
    fn xml(&self) -> String {
        match self {
            Val::F(x) => Val::num_xml(*x),
            Val::I(z) => format!("<integer>{}</integer>", z),
            Val::S(s) => format!("<string>{}</string>", xml_escape(s)),
            Val::B(b) => (if *b { "<true/>" } else { "<false/>" }).to_string(),
            Val::L(v) => format!("<array>{}</array>", v.iter().map(|x| Val::num_xml(*x)).collect::<String>()),
            Val::IL(v) => format!("<array>{}</array>", v.iter().map(|z| format!("<integer>{}</integer>", z)).collect::<String>()),
            Val::LL(v) => format!(
                "<array>{}</array>",
                v.iter()
                    .map(|r| format!("<array>{}</array>", r.iter().map(|x| Val::num_xml(*x)).collect::<String>()))
                    .collect::<String>()
            ),
        }
    }
}

#[derive(Clone, Debug, Default)]
pub struct Case {
    pub fmt: u32,
    pub attrs: Vec<(String, Val)>,
    pub lib: bool,
    pub hint: Option<Vec<(String, Val)>>,
    pub classes: Option<String>,
    pub order: Option<Vec<String>>,
    pub feats: Option<Vec<(String, String)>>,
    pub libkeys: Vec<String>,
    pub fea: Option<String>,
    /// which load entry point / data request: "" = Font::load, otherwise load_requested_data with
    /// all | nolib | nofeat | none | onlylib | nolayers
    pub req: String,
    /// the rest of an ordinary legacy UFO, all of it valid and typical: `mmk` = groups.plist with MetricsMachine
    /// groups (one-letter and longer stems, both sides, a plain group) and a kerning.plist referring to them,
    /// `glyphs` = four glyphs, one of them renamed in contents.plist only (its glif still carries the old name),
    /// `linfo` = glyphs/layerinfo.plist
    pub files: String,
}

impl Case {
    pub fn tokens(&self) -> String {
        let mut t = vec![self.fmt.to_string()];
        if !self.req.is_empty() {
            t.push(format!("req={}", self.req));
        }
        if !self.files.is_empty() {
            t.push(format!("files={}", self.files));
        }
        for (k, v) in &self.attrs {
            t.push(format!("{}={}", k, v.token()));
        }
        if self.lib {
            t.push("lib=1".into());
        }
        if let Some(h) = &self.hint {
            t.push("hint=1".into());
            for (k, v) in h {
                t.push(format!("H.{}={}", k, v.token()));
            }
        }
        if let Some(c) = &self.classes {
            t.push(format!("classes={}", hexs(c)));
        }
        if let Some(o) = &self.order {
            t.push(format!("order={}", if o.is_empty() { "-".to_string() } else { o.iter().map(|s| hexs(s)).collect::<Vec<_>>().join(",") }));
        }
        if let Some(f) = &self.feats {
            t.push(format!(
                "feat={}",
                if f.is_empty() {
                    "-".to_string()
                } else {
                    f.iter().map(|(k, v)| format!("{}:{}", hexs(k), hexs(v))).collect::<Vec<_>>().join(";")
                }
            ));
        }
        for k in &self.libkeys {
            t.push(format!("libkey={}", hexs(k)));
        }
        if let Some(f) = &self.fea {
            t.push(format!("fea={}", hexs(f)));
        }
        t.join(" ")
    }

    pub fn parse(toks: &[&str]) -> Case {
        let mut c = Case { fmt: toks[0].parse().unwrap(), ..Default::default() };
        let uh = |s: &str| String::from_utf8(unhex(s)).unwrap();
        for t in &toks[1..] {
            let (k, v) = t.split_once('=').unwrap();
            if k == "files" {
                c.files = v.to_string();
            } else if k == "req" {
                c.req = v.to_string();
            } else if k == "lib" {
                c.lib = true;
            } else if k == "hint" {
                c.hint.get_or_insert_with(Vec::new);
            } else if let Some(e) = k.strip_prefix("H.") {
                c.hint.get_or_insert_with(Vec::new).push((e.to_string(), Val::parse(v)));
            } else if k == "classes" {
                c.classes = Some(uh(v));
            } else if k == "order" {
                c.order = Some(if v == "-" { vec![] } else { v.split(',').map(uh).collect() });
            } else if k == "feat" {
                c.feats = Some(if v == "-" {
                    vec![]
                } else {
                    v.split(';')
                        .map(|e| {
                            let (a, b) = e.split_once(':').unwrap();
                            (uh(a), uh(b))
                        })
                        .collect()
                });
            } else if k == "libkey" {
                c.libkeys.push(uh(v));
            } else if k == "fea" {
                c.fea = Some(uh(v));
            } else {
                c.attrs.push((k.to_string(), Val::parse(v)));
            }
        }
        c
    }

    fn write_tree(&self, dir: &PathBuf) {
        base_tree(dir, self.fmt);
        let mut s = String::from(PLIST_HEAD);
        s.push_str("<dict>\n");
        for (k, v) in &self.attrs {
            s.push_str(&format!("<key>{}</key>{}\n", xml_escape(k), v.xml()));
        }
        s.push_str("</dict>\n</plist>\n");
        std::fs::write(dir.join("fontinfo.plist"), s).unwrap();
        if self.lib {
            let mut s = String::from(PLIST_HEAD);
            s.push_str("<dict>\n");
            if let Some(h) = &self.hint {
                s.push_str("<key>org.robofab.postScriptHintData</key><dict>");
                for (k, v) in h {
                    s.push_str(&format!("<key>{}</key>{}", xml_escape(k), v.xml()));
                }
                s.push_str("</dict>\n");
            }
            if let Some(c) = &self.classes {
                s.push_str(&format!("<key>org.robofab.opentype.classes</key><string>{}</string>\n", xml_escape(c)));
            }
            if let Some(o) = &self.order {
                s.push_str("<key>org.robofab.opentype.featureorder</key><array>");
                for k in o {
                    s.push_str(&format!("<string>{}</string>", xml_escape(k)));
                }
                s.push_str("</array>\n");
            }
            if let Some(f) = &self.feats {
                s.push_str("<key>org.robofab.opentype.features</key><dict>");
                for (k, v) in f {
                    s.push_str(&format!("<key>{}</key><string>{}</string>", xml_escape(k), xml_escape(v)));
                }
                s.push_str("</dict>\n");
            }
            for k in &self.libkeys {
                s.push_str(&format!("<key>{}</key><integer>7</integer>\n", xml_escape(k)));
            }
            s.push_str("</dict>\n</plist>\n");
            std::fs::write(dir.join("lib.plist"), s).unwrap();
        }
        if let Some(f) = &self.fea {
            std::fs::write(dir.join("features.fea"), f).unwrap();
        }
        let has = |f: &str| self.files.split(',').any(|x| x == f);
        if has("mmk") {
            std::fs::write(
                dir.join("groups.plist"),
                format!(
                    "{}<dict>\n<key>@MMK_L_A</key><array><string>A</string></array>\n<key>@MMK_R_O</key><array><string>O</string></array>\n<key>@MMK_L_long_stem</key><array><string>B</string></array>\n<key>@MMK_R_other.alt</key><array><string>C</string></array>\n<key>plain</key><array><string>A</string><string>B</string></array>\n</dict></plist>\n",
                    PLIST_HEAD
                ),
            )
            .unwrap();
            std::fs::write(
                dir.join("kerning.plist"),
                format!(
                    "{}<dict>\n<key>@MMK_L_A</key><dict><key>@MMK_R_O</key><integer>-20</integer><key>C</key><integer>5</integer></dict>\n<key>B</key><dict><key>@MMK_R_other.alt</key><integer>7</integer></dict>\n<key>@MMK_L_long_stem</key><dict><key>A</key><real>-3.5</real></dict>\n</dict></plist>\n",
                    PLIST_HEAD
                ),
            )
            .unwrap();
        }
        if has("glyphs") {
            // the glyph under the key `O` was renamed in contents.plist only: its glif still says `Oslash.old`
            let entries = [("A", "A_.glif", "A"), ("B", "B_.glif", "B"), ("C", "C_.glif", "C"), ("O", "O_.glif", "Oslash.old")];
            let mut c = String::from(PLIST_HEAD);
            c.push_str("<dict>\n");
            for (key, file, glif_name) in entries.iter() {
                c.push_str(&format!("<key>{}</key><string>{}</string>\n", key, file));
                std::fs::write(
                    dir.join("glyphs").join(file),
                    format!(
                        "<?xml version=\"1.0\" encoding=\"UTF-8\"?>\n<glyph name=\"{}\" format=\"1\">\n<advance width=\"500\"/>\n<outline>\n<contour>\n<point x=\"0\" y=\"0\" type=\"line\"/>\n<point x=\"100\" y=\"0\" type=\"line\"/>\n<point x=\"50\" y=\"100\" type=\"line\"/>\n</contour>\n</outline>\n</glyph>\n",
                        glif_name
                    ),
                )
                .unwrap();
            }
            c.push_str("</dict></plist>\n");
            std::fs::write(dir.join("glyphs").join("contents.plist"), c).unwrap();
        }
        if has("linfo") {
            std::fs::write(
                dir.join("glyphs").join("layerinfo.plist"),
                format!("{}<dict><key>color</key><string>1,0,0,1</string></dict></plist>\n", PLIST_HEAD),
            )
            .unwrap();
        }
    }
}

pub struct Ctx {
    dir: PathBuf,
    save: PathBuf,
}

impl Ctx {
    pub fn new() -> Ctx {
        let root = scratch_root().join("c14");
        Ctx { dir: root.join("in.ufo"), save: root.join("out.ufo") }
    }
}

pub fn observe(ctx: &Ctx, c: &Case) -> String {
    c.write_tree(&ctx.dir);
    let request = |name: &str| -> norad::DataRequest<'static> {
        match name {
            "all" => norad::DataRequest::default(),
            "nolib" => norad::DataRequest::default().lib(false),
            "nofeat" => norad::DataRequest::default().features(false),
            "none" => norad::DataRequest::none(),
            "onlylib" => norad::DataRequest::none().lib(true),
            "nolayers" => norad::DataRequest::default().layers(false).lib(false).groups(false).kerning(false),
            other => panic!("request {}", other),
        }
    };
    let loaded = if c.req.is_empty() {
        guarded(|| Font::load(&ctx.dir))
    } else {
        guarded(|| Font::load_requested_data(&ctx.dir, request(&c.req)))
    };
    match loaded {
        Err(_) => "panic".to_string(),
        Ok(Err(e)) => {
            let class = match &e {
                norad::error::FontLoadError::FontInfo(b) => match b {
                    norad::error::FontInfoLoadError::ParsePlist(_) => "parse".to_string(),
                    norad::error::FontInfoLoadError::FontInfoUpconversion(k) => {
                        format!("upconversion:{}", format!("{:?}", k).chars().take_while(|c| c.is_ascii_alphanumeric()).collect::<String>())
                    }
                    _ => "fontinfo-other".to_string(),
                },
                norad::error::FontLoadError::FontInfoV1Upconversion(k) => {
                    format!("v1hint:{}", format!("{:?}", k).chars().take_while(|c| c.is_ascii_alphanumeric()).collect::<String>())
                }
                norad::error::FontLoadError::ParsePlist { name, .. } => format!("plist:{}", name),
                _ => "other".to_string(),
            };
            format!("err:{}", class)
        }
        Ok(Ok(font)) => {
            let fmtv = match font.meta.format_version {
                norad::FormatVersion::V1 => 1,
                norad::FormatVersion::V2 => 2,
                norad::FormatVersion::V3 => 3,
            };
            let val = if font.font_info.validate().is_ok() { "ok" } else { "err" };
            rm_rf(&ctx.save);
            let save = match guarded(|| font.save(&ctx.save)) {
                Ok(Ok(())) => "ok",
                Ok(Err(_)) => "err",
                Err(_) => "panic",
            };
            let mut keys: Vec<String> = font.lib.keys().map(|k| hexs(k)).collect();
            keys.sort();
            let fields = fi_fields::dump(&font.font_info);
            format!(
                "ok fmt={} val={} save={} feat={} lib={} | {}",
                fmtv,
                val,
                save,
                hexs(&font.features),
                if keys.is_empty() { "-".to_string() } else { keys.join(",") },
                fields.join(" ")
            )
        }
    }
}

static EMITTED: std::sync::atomic::AtomicUsize = std::sync::atomic::AtomicUsize::new(0);

fn emit(out: &mut dyn Write, ctx: &Ctx, c: &Case) {
    let obs = observe(ctx, c);
    writeln!(out, "C14 {} => {}", c.tokens(), obs.trim_end()).unwrap();
    // every second case a second time as an ORDINARY legacy UFO (MetricsMachine groups and kerning, glyphs with
    // one renamed in contents.plist only, layerinfo): the expectation "loads, converted, validates, saves" is
    // about a whole legacy font, not about a font-info-only tree
    let n = EMITTED.fetch_add(1, std::sync::atomic::Ordering::Relaxed);
    if c.files.is_empty() && n % 2 == 0 {
        let mut c2 = c.clone();
        c2.files = ["mmk,glyphs,linfo", "mmk", "glyphs", "mmk,glyphs"][(n / 2) % 4].to_string();
        let obs = observe(ctx, &c2);
        writeln!(out, "C14 {} => {}", c2.tokens(), obs.trim_end()).unwrap();
    }
}

pub fn replay(toks: &[&str]) -> String {
    let ctx = Ctx::new();
    observe(&ctx, &Case::parse(toks)).trim_end().to_string()
}

/// a value of the attribute's type that no other attribute gets (index `n`), valid for the C13 rules
fn unique_val(ty: &str, n: usize) -> Val {
    let nf = n as f64;
    match ty {
        "num" => Val::F(1000.0 + nf + if n % 3 == 0 { 0.25 } else if n % 3 == 1 { 0.0 } else { 0.75 }),
        "int" => Val::I(100 + n as i64),
        "uint" => Val::I(300 + n as i64),
        "str" => Val::S(format!("s{}", n)),
        "bool" => Val::B(n % 2 == 0),
        "nums" => Val::L(vec![nf, nf + 1.5]),
        "bits" => Val::IL(vec![1, 2, 7 + (n % 8) as i64]),
        "famclass" => Val::IL(vec![(n % 15) as i64, (n % 16) as i64]),
        "panose" => Val::IL((0..10).map(|k| (n as i64 + k) % 12).collect()),
        "width" => Val::I((n % 9) as i64 + 1),
        "charset" => Val::I((n % 20) as i64 + 1),
        "style" => Val::S(["regular", "italic", "bold", "bold italic"][n % 4].to_string()),
        _ => panic!("type {}", ty),
    }
}

fn unique_attr(fmt: u32, key: &str, ty: &str, n: usize) -> Val {
    if key == "openTypeHeadCreated" {
        return Val::S(format!("2020/06/15 12:30:{:02}", n % 60));
    }
    if fmt == 1 {
        match key {
            "fontStyle" => return Val::I([64, 1, 32, 33, 0][n % 5]),
            "msCharSet" => return Val::I([0, 1, 2, 77, 128, 129, 130, 134, 136, 161, 162, 163, 177, 178, 186, 200, 204, 222, 238, 255][n % 20]),
            "widthName" => return Val::S(WIDTHS[n % WIDTHS.len()].to_string()),
            _ => {}
        }
    }
    unique_val(ty, n)
}

const WIDTHS: [&str; 13] = [
    "Ultra-condensed",
    "Extra-condensed",
    "Condensed",
    "Semi-condensed",
    "Medium (normal)",
    "Semi-expanded",
    "Expanded",
    "Extra-expanded",
    "Ultra-expanded",
    "Normal",
    "All",
    "medium",
    "Medium",
];

fn numeric_classes() -> Vec<f64> {
    let p31 = 2147483648.0f64;
    let p32 = 4294967296.0f64;
    vec![
        0.0, -0.0, 0.25, 0.5, 0.75, 1.5, 2.5, -0.5, -1.5, -2.5, -0.25, 12.49, 12.51, -12.49, -12.51, 750.0, -750.0, 1e-17, -1e-17,
        0.49999999999999994, -0.49999999999999994,
        p31 - 2.0, p31 - 1.5, p31 - 1.0, p31 - 0.5, p31, p31 + 1.0, -(p31 - 1.0), -p31, -p31 - 0.5, -p31 - 1.0, -p31 - 2.0,
        p32 - 2.0, p32 - 1.0, p32 - 0.5, p32, p32 + 1.0, -(p32 - 1.0), -p32, -p32 - 1.0,
        4503599627370497.0, 1e300, -1e300, f64::INFINITY, f64::NEG_INFINITY, f64::NAN,
    ]
}

pub fn gen(tier: &str, seed: u64, out: &mut dyn Write) {
    let ctx = Ctx::new();
    let mut rng = Rng::new(seed);
    let thorough = tier == "thorough";
    let tables: [(u32, &[(&str, &str)]); 2] = [(1, legacy_fields::V1), (2, legacy_fields::V2)];

    for (fmt, table) in tables.iter() {
        // nothing at all
        emit(out, &ctx, &Case { fmt: *fmt, ..Default::default() });
        // every legacy attribute alone, with a value no other attribute gets
        for (n, (k, ty)) in table.iter().enumerate() {
            for variant in 0..2 {
                let v = unique_attr(*fmt, k, ty, n * 2 + variant + 1);
                emit(out, &ctx, &Case { fmt: *fmt, attrs: vec![(k.to_string(), v)], ..Default::default() });
            }
        }
        // all attributes together, values unique per attribute; then neighbouring pairs (swapped lines show up twice)
        for round in 0..3usize {
            let attrs: Vec<(String, Val)> =
                table.iter().enumerate().map(|(n, (k, ty))| (k.to_string(), unique_attr(*fmt, k, ty, n + 1 + 131 * round))).collect();
            emit(out, &ctx, &Case { fmt: *fmt, attrs, ..Default::default() });
        }
        for n in 0..table.len() - 1 {
            let attrs: Vec<(String, Val)> = (n..n + 2).map(|j| (table[j].0.to_string(), unique_attr(*fmt, table[j].0, table[j].1, j + 7))).collect();
            emit(out, &ctx, &Case { fmt: *fmt, attrs, ..Default::default() });
        }
        // numeric classes through every number-typed attribute (every second class per attribute in the quick tier)
        let nums = numeric_classes();
        for (n, (k, ty)) in table.iter().enumerate() {
            if *ty != "num" {
                continue;
            }
            for (j, x) in nums.iter().enumerate() {
                if !thorough && (j + n) % 2 == 1 {
                    continue;
                }
                emit(out, &ctx, &Case { fmt: *fmt, attrs: vec![(k.to_string(), Val::F(*x))], ..Default::default() });
            }
        }
        // integer-typed attributes at the ends of their types
        for (k, ty) in table.iter() {
            let vals: Vec<i64> = match *ty {
                "int" => vec![0, -1, -5, 2147483647, -2147483648, -2147483647, 2147483648, -2147483649],
                "uint" => vec![0, 1, 4294967295, 4294967296, -1],
                _ => continue,
            };
            for z in vals {
                emit(out, &ctx, &Case { fmt: *fmt, attrs: vec![(k.to_string(), Val::I(z))], ..Default::default() });
            }
        }
    }

    // --- format 1 enumerations: every code in -5..300
    for code in -5..=300i64 {
        emit(out, &ctx, &Case { fmt: 1, attrs: vec![("fontStyle".into(), Val::I(code))], ..Default::default() });
        emit(out, &ctx, &Case { fmt: 1, attrs: vec![("msCharSet".into(), Val::I(code))], ..Default::default() });
    }
    for code in [-2147483648i64, -64, 1000, 65, 63, 31, 34, 256, 2147483647] {
        emit(out, &ctx, &Case { fmt: 1, attrs: vec![("fontStyle".into(), Val::I(code))], ..Default::default() });
        emit(out, &ctx, &Case { fmt: 1, attrs: vec![("msCharSet".into(), Val::I(code))], ..Default::default() });
    }
    // width names: the table, case variants, near misses
    let mut names: Vec<String> = Vec::new();
    for w in WIDTHS.iter() {
        names.push(w.to_string());
        names.push(w.to_lowercase());
        names.push(w.to_uppercase());
        names.push(format!(" {}", w));
        names.push(format!("{} ", w));
        names.push(w.replace('-', " "));
        names.push(w.replace('-', ""));
    }
    for w in ["", "normal", "all", "ALL", "Medium (Normal)", "Medium(normal)", "Regular", "Narrow", "5", "Ultra-Condensed", "Semi expanded", "Extra-Expanded"] {
        names.push(w.to_string());
    }
    names.sort();
    names.dedup();
    for w in &names {
        emit(out, &ctx, &Case { fmt: 1, attrs: vec![("widthName".into(), Val::S(w.clone()))], ..Default::default() });
    }
    // weightValue: -1 is "not set"
    for z in [-1i64, 0, 1, -2, -5, 5, 400, -400, 1000, 2147483647, -2147483647, -2147483648] {
        emit(out, &ctx, &Case { fmt: 1, attrs: vec![("weightValue".into(), Val::I(z))], ..Default::default() });
        emit(
            out,
            &ctx,
            &Case { fmt: 1, attrs: vec![("weightValue".into(), Val::I(z)), ("weightName".into(), Val::S("Bold".into()))], ..Default::default() },
        );
    }
    // version minor / panose negatives (format 2)
    for z in [-1i64, -7, 7, 0, -2147483648] {
        emit(out, &ctx, &Case { fmt: 2, attrs: vec![("versionMinor".into(), Val::I(z))], ..Default::default() });
        emit(out, &ctx, &Case { fmt: 1, attrs: vec![("versionMinor".into(), Val::I(z))], ..Default::default() });
    }
    for p in [
        vec![2, 2, 2, 2, 6, 5, 11, 4, 2, 5],
        vec![-2, 2, -2, 2, -6, 5, -11, 4, -2, 5],
        vec![0, 0, 0, 0, 0, 0, 0, 0, 0, -2147483648],
        vec![1, 2, 3, 4, 5, 6, 7, 8, 9],
        vec![1, 2, 3, 4, 5, 6, 7, 8, 9, 10, 11],
    ] {
        emit(out, &ctx, &Case { fmt: 2, attrs: vec![("openTypeOS2Panose".into(), Val::IL(p))], ..Default::default() });
    }
    // attributes of another format are refused
    for (fmt, k, v) in [
        (1u32, "openTypeHheaAscender", Val::F(5.0)),
        (1, "postscriptBlueValues", Val::L(vec![1.0, 2.0])),
        (1, "styleMapStyleName", Val::S("bold".into())),
        (2, "fontStyle", Val::I(64)),
        (2, "widthName", Val::S("Normal".into())),
        (2, "guidelines", Val::IL(vec![])),
        (2, "openTypeGaspRangeRecords", Val::IL(vec![])),
        (2, "woffMajorVersion", Val::I(1)),
        (1, "nonsense", Val::I(1)),
    ] {
        emit(out, &ctx, &Case { fmt, attrs: vec![(k.to_string(), v)], ..Default::default() });
    }
    // validation after the conversion (C13 rules on a format-2 font info)
    for (k, v) in [
        ("openTypeHeadCreated", Val::S("2020/13/15 12:30:30".into())),
        ("openTypeHeadCreated", Val::S("2020/06/15 12:30:30".into())),
        ("openTypeHeadCreated", Val::S("2020-06-15 12:30:30".into())),
        ("openTypeOS2Selection", Val::IL(vec![1, 5])),
        ("openTypeOS2Selection", Val::IL(vec![0])),
        ("openTypeOS2Selection", Val::IL(vec![7, 8])),
        ("openTypeOS2FamilyClass", Val::IL(vec![15, 0])),
        ("openTypeOS2FamilyClass", Val::IL(vec![14, 15])),
        ("openTypeOS2FamilyClass", Val::IL(vec![0, 16])),
        ("postscriptBlueValues", Val::L(vec![0.0; 14])),
        ("postscriptBlueValues", Val::L(vec![0.0; 15])),
        ("postscriptBlueValues", Val::L(vec![0.0; 16])),
        ("postscriptOtherBlues", Val::L(vec![0.0; 10])),
        ("postscriptOtherBlues", Val::L(vec![0.0; 12])),
        ("postscriptFamilyBlues", Val::L(vec![0.0; 13])),
        ("postscriptFamilyOtherBlues", Val::L(vec![0.0; 11])),
        ("postscriptStemSnapH", Val::L(vec![0.0; 12])),
        ("postscriptStemSnapH", Val::L(vec![0.0; 13])),
        ("postscriptStemSnapV", Val::L(vec![0.0; 13])),
    ] {
        emit(out, &ctx, &Case { fmt: 2, attrs: vec![(k.to_string(), v)], ..Default::default() });
    }

    // --- robofab data in the format-1 lib
    let pairs = |n: usize| -> Vec<Vec<f64>> { (0..n).map(|k| vec![k as f64 * 10.0, k as f64 * 10.0 + 5.5]).collect() };
    let hint_full = |n: usize| -> Vec<(String, Val)> {
        vec![
            ("blueFuzz".into(), Val::F(1.0 + n as f64)),
            ("blueScale".into(), Val::F(0.039625)),
            ("blueShift".into(), Val::F(7.0 + n as f64)),
            ("blueValues".into(), Val::LL(pairs(2))),
            ("otherBlues".into(), Val::LL(vec![vec![-250.0, -240.0]])),
            ("familyBlues".into(), Val::LL(pairs(3))),
            ("familyOtherBlues".into(), Val::LL(vec![vec![-11.0, -12.0], vec![-13.0, -14.0]])),
            ("forceBold".into(), Val::B(n % 2 == 0)),
            ("hStems".into(), Val::L(vec![100.0, 120.5])),
            ("vStems".into(), Val::L(vec![80.0, 90.0, 95.0])),
        ]
    };
    let base_attrs = || vec![("familyName".to_string(), Val::S("Fam".into())), ("unitsPerEm".to_string(), Val::F(1000.0))];
    let mut robo: Vec<Case> = Vec::new();
    robo.push(Case { fmt: 1, attrs: base_attrs(), lib: true, ..Default::default() });
    robo.push(Case { fmt: 1, attrs: base_attrs(), lib: true, libkeys: vec!["com.example.keep".into(), "org.robofab.other".into()], ..Default::default() });
    robo.push(Case { fmt: 1, attrs: base_attrs(), lib: true, hint: Some(hint_full(0)), libkeys: vec!["com.example.keep".into()], ..Default::default() });
    robo.push(Case { fmt: 1, attrs: vec![], lib: true, hint: Some(hint_full(1)), ..Default::default() });
    robo.push(Case { fmt: 1, attrs: base_attrs(), lib: true, hint: Some(vec![]), ..Default::default() });
    // each hint entry alone
    for e in hint_full(2) {
        robo.push(Case { fmt: 1, attrs: vec![], lib: true, hint: Some(vec![e]), ..Default::default() });
    }
    // list limits through the hint data: 7 / 8 pairs, 5 / 6 pairs, odd rows, 12 / 13 stems
    for (k, v) in [
        ("blueValues", Val::LL(pairs(7))),
        ("blueValues", Val::LL(pairs(8))),
        ("blueValues", Val::LL(vec![vec![1.0, 2.0, 3.0]])),
        ("blueValues", Val::LL(vec![vec![1.0], vec![2.0]])),
        ("blueValues", Val::LL(vec![])),
        ("blueValues", Val::LL(vec![vec![], vec![1.0, 2.0]])),
        ("otherBlues", Val::LL(pairs(5))),
        ("otherBlues", Val::LL(pairs(6))),
        ("familyBlues", Val::LL(pairs(8))),
        ("familyOtherBlues", Val::LL(pairs(6))),
        ("hStems", Val::L(vec![1.0; 12])),
        ("hStems", Val::L(vec![1.0; 13])),
        ("vStems", Val::L(vec![1.0; 13])),
    ] {
        robo.push(Case { fmt: 1, attrs: base_attrs(), lib: true, hint: Some(vec![(k.to_string(), v)]), ..Default::default() });
    }
    // features
    let f3 = vec![("kern".to_string(), "feature kern { pos A B -10; } kern;\n".to_string()), ("liga".to_string(), "feature liga { sub f i by fi; } liga;\n".to_string()), ("aalt".to_string(), "feature aalt { feature liga; } aalt;\n".to_string())];
    let cls = "@upper = [A B C];\n".to_string();
    robo.push(Case { fmt: 1, lib: true, classes: Some(cls.clone()), ..Default::default() });
    robo.push(Case { fmt: 1, lib: true, classes: Some(String::new()), ..Default::default() });
    robo.push(Case { fmt: 1, lib: true, feats: Some(vec![]), ..Default::default() });
    robo.push(Case { fmt: 1, lib: true, classes: Some(cls.clone()), feats: Some(vec![]), ..Default::default() });
    robo.push(Case { fmt: 1, lib: true, feats: Some(f3[..1].to_vec()), ..Default::default() });
    robo.push(Case { fmt: 1, lib: true, classes: Some(cls.clone()), feats: Some(f3[..1].to_vec()), ..Default::default() });
    robo.push(Case { fmt: 1, lib: true, classes: Some(cls.clone()), feats: Some(f3[..2].to_vec()), ..Default::default() });
    robo.push(Case { fmt: 1, lib: true, classes: Some(cls.clone()), feats: Some(f3.clone()), ..Default::default() });
    for order in [
        vec!["kern", "liga", "aalt"],
        vec!["aalt", "liga", "kern"],
        vec!["liga", "kern"],
        vec!["liga", "nope", "kern", "aalt"],
        vec!["kern", "kern"],
        vec![],
        vec!["nope"],
    ] {
        let o: Vec<String> = order.iter().map(|s| s.to_string()).collect();
        robo.push(Case { fmt: 1, lib: true, classes: Some(cls.clone()), order: Some(o.clone()), feats: Some(f3.clone()), ..Default::default() });
        robo.push(Case { fmt: 1, lib: true, order: Some(o.clone()), feats: Some(f3.clone()), hint: Some(hint_full(3)), libkeys: vec!["public.glyphOrder".into()], ..Default::default() });
        robo.push(Case { fmt: 1, lib: true, order: Some(o), ..Default::default() });
    }
    // an existing features.fea is replaced only by non-empty converted text
    robo.push(Case { fmt: 1, lib: true, fea: Some("# old\n".into()), ..Default::default() });
    robo.push(Case { fmt: 1, lib: true, fea: Some("# old\n".into()), classes: Some(cls.clone()), ..Default::default() });
    robo.push(Case { fmt: 1, lib: true, fea: Some("# old\n".into()), classes: Some(String::new()), ..Default::default() });
    robo.push(Case { fmt: 1, fea: Some("# old\n".into()), ..Default::default() });
    robo.push(Case { fmt: 2, fea: Some("# two\n".into()), attrs: base_attrs(), ..Default::default() });
    // the same lib in a format-2 font is left alone
    robo.push(Case { fmt: 2, attrs: base_attrs(), lib: true, hint: Some(hint_full(4)), classes: Some(cls.clone()), order: Some(vec!["kern".into()]), feats: Some(f3.clone()), libkeys: vec!["com.example.keep".into()], ..Default::default() });
    for c in &robo {
        emit(out, &ctx, c);
    }
    // the same trees through load_requested_data: the conversion of font info and features must not depend
    // on what else the caller asked for (lib off, features off, nothing, only the lib, no layers)
    for c in &robo {
        for req in ["all", "nolib", "nofeat", "none", "onlylib", "nolayers"] {
            let mut c2 = c.clone();
            c2.req = req.to_string();
            emit(out, &ctx, &c2);
        }
    }
    for (fmt, table) in tables.iter() {
        for req in ["all", "nolib", "nofeat", "none", "onlylib", "nolayers"] {
            let attrs: Vec<(String, Val)> =
                table.iter().enumerate().map(|(n, (k, ty))| (k.to_string(), unique_attr(*fmt, k, ty, n + 5))).collect();
            emit(out, &ctx, &Case { fmt: *fmt, attrs, req: req.to_string(), lib: true, libkeys: vec!["com.example.keep".into()], fea: Some("# fea\n".into()), ..Default::default() });
        }
    }

    // --- random combinations
    let n_random = if thorough { 6000 } else { 500 };
    let nums = numeric_classes();
    for _ in 0..n_random {
        let (fmt, table) = tables[rng.below(2)];
        let mut attrs = Vec::new();
        let p = 1 + rng.below(6);
        for (n, (k, ty)) in table.iter().enumerate() {
            if rng.below(8) < p {
                let v = if *ty == "num" && rng.chance(1, 3) {
                    Val::F(*rng.pick(&nums))
                } else {
                    unique_attr(fmt, k, ty, rng.below(1000) + n)
                };
                attrs.push((k.to_string(), v));
            }
        }
        // shuffle the order in the file
        for i in (1..attrs.len()).rev() {
            let j = rng.below(i + 1);
            attrs.swap(i, j);
        }
        let mut c = Case { fmt, attrs, ..Default::default() };
        if rng.chance(1, 2) {
            c.lib = true;
            if rng.chance(1, 2) {
                let mut h = hint_full(rng.below(50));
                h.retain(|_| rng.chance(2, 3));
                c.hint = Some(h);
            }
            if rng.chance(1, 2) {
                c.classes = Some(cls.clone());
            }
            if rng.chance(1, 2) {
                c.feats = Some(f3[..rng.below(4)].to_vec());
                if rng.chance(2, 3) {
                    let mut o: Vec<String> = f3.iter().map(|x| x.0.clone()).collect();
                    o.rotate_left(rng.below(3));
                    o.truncate(1 + rng.below(3));
                    c.order = Some(o);
                }
            }
            if rng.chance(1, 2) {
                c.libkeys.push("com.example.keep".into());
            }
        }
        if rng.chance(1, 3) {
            c.req = rng.pick(&["all", "nolib", "nofeat", "none", "onlylib", "nolayers"]).to_string();
        }
        emit(out, &ctx, &c);
    }
}
