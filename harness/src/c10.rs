//! C10: loading and saving are deterministic.
//!
//! `C10 det <fmt> <G> <K> <L> <F> <O> <B> <X> => ok d=<#dumps> t=<#trees> sorted=<0|1> p=<#prestate trees> <G'> <K'> T:<features hex> | err d=<#outcomes>`
//! `<G> <K> <L>` as in C15 (`L` = glyph names); `<F>` = `F!` | `F:<hex classes>`; `<O>` = `O!` | `O:tag,tag`
//! (robofab featureorder); `<B>` = `B!` | `B:tag=text;tag=text` (robofab feature blocks, format 1 only);
//! `<X>` = `X:<n>` extra content selector (nested lib dictionaries written in unsorted order, data files,
//! a second layer) for the save part.
//!
//! Each tree is loaded N times in this process (every load builds fresh HashMaps/HashSets with fresh
//! `RandomState` keys) and, for a share of the cases, in freshly spawned processes of this binary
//! (`harness c10child <tree> <out>`); every loaded font is saved and additionally the first one twice;
//! `d` = number of different dumps (groups, kerning, features, lib, layer/glyph names), `t` = number of
//! different saved trees (hash over sorted path/kind/bytes), `sorted` = every dictionary of the written
//! lib/groups/kerning/contents/layerinfo plists (recursively through dictionaries, not through arrays)
//! has its keys in ascending order.
use crate::c15::{self, Case, Groups, Kerning};
use crate::common::*;
use crate::rng::Rng;
use norad::Font;
use std::collections::{BTreeMap, BTreeSet};
use std::io::Write;
use std::path::{Path, PathBuf};

#[derive(Clone, Debug)]
pub struct DCase {
    pub base: Case,
    pub classes: Option<String>,
    pub order: Option<Vec<String>>,
    pub blocks: Option<BTreeMap<String, String>>,
    pub extra: u32,
    /// data-store inserts applied to every loaded font before it is saved: (key, content)
    pub edits: Vec<(String, String)>,
}

const PLIST_HEAD: &str = "<?xml version=\"1.0\" encoding=\"UTF-8\"?>\n<!DOCTYPE plist PUBLIC \"-//Apple//DTD PLIST 1.0//EN\" \"http://www.apple.com/DTDs/PropertyList-1.0.dtd\">\n<plist version=\"1.0\">\n";

fn write_dtree(dir: &Path, c: &DCase) {
    c15::write_tree(dir, &c.base);
    let mut lib = String::new();
    if let Some(cl) = &c.classes {
        lib.push_str(&format!("<key>org.robofab.opentype.classes</key>\n<string>{}</string>\n", c15::xml_escape(cl)));
    }
    if let Some(o) = &c.order {
        lib.push_str("<key>org.robofab.opentype.featureorder</key>\n<array>\n");
        for t in o {
            lib.push_str(&format!("<string>{}</string>\n", c15::xml_escape(t)));
        }
        lib.push_str("</array>\n");
    }
    if let Some(b) = &c.blocks {
        lib.push_str("<key>org.robofab.opentype.features</key>\n<dict>\n");
        // written in reverse order: the file order must not matter either
        for (t, txt) in b.iter().rev() {
            lib.push_str(&format!("<key>{}</key>\n<string>{}</string>\n", c15::xml_escape(t), c15::xml_escape(txt)));
        }
        lib.push_str("</dict>\n");
    }
    if c.extra & 1 != 0 {
        // nested dictionaries with keys in descending order, a dictionary inside an array
        lib.push_str("<key>zz.nested</key>\n<dict>\n<key>q</key>\n<dict>\n<key>z</key>\n<integer>1</integer>\n<key>m</key>\n<integer>2</integer>\n<key>a</key>\n<integer>3</integer>\n</dict>\n<key>b</key>\n<string>x</string>\n</dict>\n");
        lib.push_str("<key>com.arr</key>\n<array>\n<dict>\n<key>y</key>\n<integer>1</integer>\n<key>x</key>\n<integer>2</integer>\n</dict>\n</array>\n");
        lib.push_str("<key>aa.first</key>\n<true/>\n");
    }
    if !lib.is_empty() {
        std::fs::write(dir.join("lib.plist"), format!("{}<dict>\n{}</dict>\n</plist>\n", PLIST_HEAD, lib)).unwrap();
    }
    if c.extra & 2 != 0 {
        std::fs::create_dir_all(dir.join("data").join("sub").join("deep")).unwrap();
        for (p, body) in [("z.txt", "z"), ("a.txt", "a"), ("sub/m.bin", "m"), ("sub/deep/k.txt", "k"), ("b.txt", "b")] {
            std::fs::write(dir.join("data").join(p), body).unwrap();
        }
        std::fs::create_dir_all(dir.join("images")).unwrap();
        // PNG signature is what the image store checks
        let png = [0x89u8, b'P', b'N', b'G', 0x0d, 0x0a, 0x1a, 0x0a, 1, 2, 3];
        for p in ["q.png", "c.png", "x.png"] {
            std::fs::write(dir.join("images").join(p), png).unwrap();
        }
    }
    if c.extra & 4 != 0 && c.base.fmt == 3 {
        // a second layer with a layerinfo lib in unsorted order
        std::fs::write(
            dir.join("layercontents.plist"),
            format!("{}<array>\n<array>\n<string>public.default</string>\n<string>glyphs</string>\n</array>\n<array>\n<string>bg</string>\n<string>glyphs.bg</string>\n</array>\n</array>\n</plist>\n", PLIST_HEAD),
        )
        .unwrap();
        std::fs::create_dir_all(dir.join("glyphs.bg")).unwrap();
        std::fs::write(
            dir.join("glyphs.bg").join("contents.plist"),
            format!("{}<dict>\n<key>zed</key>\n<string>zed.glif</string>\n<key>alpha</key>\n<string>alpha.glif</string>\n</dict>\n</plist>\n", PLIST_HEAD),
        )
        .unwrap();
        for n in ["zed", "alpha"] {
            std::fs::write(
                dir.join("glyphs.bg").join(format!("{}.glif", n)),
                format!("<?xml version=\"1.0\" encoding=\"UTF-8\"?>\n<glyph name=\"{}\" format=\"2\">\n<lib>\n<dict>\n<key>z</key>\n<dict>\n<key>b</key>\n<integer>1</integer>\n<key>a</key>\n<integer>2</integer>\n</dict>\n<key>k</key>\n<integer>0</integer>\n</dict>\n</lib>\n</glyph>\n", n),
            )
            .unwrap();
        }
        std::fs::write(
            dir.join("glyphs.bg").join("layerinfo.plist"),
            format!("{}<dict>\n<key>lib</key>\n<dict>\n<key>y</key>\n<integer>1</integer>\n<key>c</key>\n<dict>\n<key>t</key>\n<integer>1</integer>\n<key>d</key>\n<integer>1</integer>\n</dict>\n</dict>\n<key>color</key>\n<string>1,0,0,1</string>\n</dict>\n</plist>\n", PLIST_HEAD),
        )
        .unwrap();
    }
}

/// canonical dump of what a load returned (only through public fields / getters)
fn dump_font(f: &Font) -> String {
    let mut s = String::new();
    s.push_str(&c15::dump_groups(f));
    s.push(' ');
    s.push_str(&c15::dump_kerning(f));
    s.push_str(&format!(" T:{}", hexs(&f.features)));
    s.push_str(&format!(" LIB:{}", hexs(&format!("{:?}", f.lib))));
    for l in f.layers.iter() {
        s.push_str(&format!(" LAYER:{}:", hexs(l.name())));
        for g in l.iter() {
            s.push_str(&hexs(g.name()));
            s.push(',');
        }
        s.push_str(&hexs(&format!("{:?}", l.lib)));
    }
    // everything else a load returns (outlines, identifiers, anchors, guidelines, font info), by its Debug text
    for l in f.layers.iter() {
        for g in l.iter() {
            s.push_str(&format!(" GL:{:016x}", fnv(format!("{:?}", g).as_bytes())));
        }
    }
    s.push_str(&format!(" FI:{:016x}", fnv(format!("{:?}", f.font_info).as_bytes())));
    let mut data: Vec<String> = f.data.iter().map(|(p, _)| p.to_string_lossy().to_string()).collect();
    data.sort();
    s.push_str(&format!(" DATA:{}", hexs(&data.join("|"))));
    s
}

fn tree_hash(dir: &Path) -> u64 {
    let mut acc: Vec<u8> = Vec::new();
    for (p, k, b) in snapshot(dir) {
        acc.extend_from_slice(p.as_bytes());
        acc.push(0);
        acc.push(k as u8);
        acc.extend_from_slice(&(b.len() as u64).to_le_bytes());
        acc.extend_from_slice(&b);
    }
    fnv(&acc)
}

fn dict_sorted(v: &plist::Value) -> bool {
    match v {
        plist::Value::Dictionary(d) => {
            let keys: Vec<&String> = d.keys().collect();
            keys.windows(2).all(|w| w[0] < w[1]) && d.values().all(dict_sorted_through_dicts)
        }
        _ => true,
    }
}

fn dict_sorted_through_dicts(v: &plist::Value) -> bool {
    match v {
        plist::Value::Dictionary(_) => dict_sorted(v),
        _ => true, // arrays are not descended into (util.rs:11-18)
    }
}

fn written_sorted(dir: &Path) -> bool {
    let mut ok = true;
    let mut files = vec![dir.join("lib.plist"), dir.join("groups.plist"), dir.join("kerning.plist")];
    if let Ok(rd) = std::fs::read_dir(dir) {
        for e in rd.flatten() {
            let p = e.path();
            if p.is_dir() && p.file_name().unwrap().to_string_lossy().starts_with("glyphs") {
                files.push(p.join("contents.plist"));
                files.push(p.join("layerinfo.plist"));
            }
        }
    }
    for f in files {
        if f.exists() {
            match plist::Value::from_file(&f) {
                Ok(v) => ok &= dict_sorted(&v),
                Err(_) => ok = false,
            }
        }
    }
    ok
}

fn copy_tree(from: &Path, to: &Path) {
    std::fs::create_dir_all(to).unwrap();
    for e in std::fs::read_dir(from).unwrap().flatten() {
        let p = e.path();
        let t = to.join(e.file_name());
        if p.is_dir() {
            copy_tree(&p, &t);
        } else {
            std::fs::copy(&p, &t).unwrap();
        }
    }
}

/// pre-state `pre` of a save target
fn prepare_target(out: &Path, pre: usize, some_ufo: &Path) {
    match pre {
        0 => {}
        1 => std::fs::create_dir_all(out).unwrap(),
        2 | 4 => {
            std::fs::create_dir_all(out.join("data").join("old")).unwrap();
            std::fs::create_dir_all(out.join("glyphs")).unwrap();
            std::fs::create_dir_all(out.join("images")).unwrap();
            std::fs::write(out.join("features.fea"), "# stale features\n").unwrap();
            std::fs::write(out.join("data").join("old").join("stale.txt"), "stale").unwrap();
            std::fs::write(out.join(".hidden"), "h").unwrap();
            std::fs::write(out.join("notes.txt"), "not a ufo").unwrap();
            std::fs::write(out.join("glyphs").join("old_.glif"), "<glyph/>").unwrap();
            std::fs::write(out.join("groups.plist"), "stale").unwrap();
            if pre == 4 {
                // looks like a UFO except for metainfo.plist
                std::fs::write(out.join("layercontents.plist"), "stale").unwrap();
                std::fs::write(out.join("lib.plist"), "stale").unwrap();
                std::fs::write(out.join("kerning.plist"), "stale").unwrap();
            }
        }
        _ => {
            copy_tree(some_ufo, out);
            std::fs::write(out.join("features.fea"), "# features of the other font\n").unwrap();
            std::fs::create_dir_all(out.join("data")).unwrap();
            std::fs::write(out.join("data").join("other.txt"), "other").unwrap();
        }
    }
}

/// one load (+ save) of `tree`; returns (dump or error class, tree hash of the save, sorted)
fn load_save(tree: &Path, out: &Path, edits: &[(String, String)]) -> (String, u64, bool) {
    match guarded(|| Font::load(tree)) {
        Err(_) => ("panic".to_string(), 0, true),
        Ok(Err(e)) => (format!("err {}", format!("{:?}", e).split(|c: char| !c.is_alphanumeric()).next().unwrap_or("?")), 0, true),
        Ok(Ok(mut f)) => {
            let mut rejected = String::new();
            for (k, v) in edits {
                if f.data.insert(PathBuf::from(k), v.as_bytes().to_vec()).is_err() {
                    rejected.push_str(&format!("{},", hexs(k)));
                }
            }
            let d = format!("{} REJ:{}", dump_font(&f), rejected);
            rm_rf(out);
            match guarded(|| f.save(out)) {
                Ok(Ok(())) => {
                    let h = tree_hash(out);
                    let s = written_sorted(out);
                    rm_rf(out);
                    (d, h, s)
                }
                _ => {
                    rm_rf(out);
                    (d, 1, true)
                }
            }
        }
    }
}

/// entry point of the spawned child process: prints `<tree hash> <sorted> <dump>`
pub fn child(tree: &str, out: &str, edits_tok: &str) {
    let (d, h, s) = load_save(Path::new(tree), Path::new(out), &parse_edits(edits_tok));
    println!("{:016x} {} {}", h, s as u8, d);
}

pub fn observe_case(c: &DCase, dir: &Path, loads: usize, procs: usize) -> String {
    let tree = dir.join("in.ufo");
    let out = dir.join("out.ufo");
    write_dtree(&tree, c);
    let mut dumps: BTreeSet<String> = BTreeSet::new();
    let mut trees: BTreeSet<u64> = BTreeSet::new();
    let mut sorted = true;
    let mut first: Option<String> = None;
    let mut prestates: BTreeSet<u64> = BTreeSet::new();
    for i in 0..loads {
        let (d, h, s) = load_save(&tree, &out, &c.edits);
        if first.is_none() {
            first = Some(d.clone());
        }
        dumps.insert(d);
        trees.insert(h);
        sorted &= s;
        if i == 0 {
            // the same font saved a second time
            if let Ok(Ok(mut f)) = guarded(|| Font::load(&tree)) {
                for (k, v) in &c.edits {
                    let _ = f.data.insert(PathBuf::from(k), v.as_bytes().to_vec());
                }
                for _ in 0..2 {
                    rm_rf(&out);
                    if let Ok(Ok(())) = guarded(|| f.save(&out)) {
                        trees.insert(tree_hash(&out));
                    }
                }
                rm_rf(&out);
                // the same font saved over different pre-states of the target: nothing there, an empty
                // directory, a non-empty directory that is no UFO (stale feature file, data, hidden
                // file, a glyphs directory), a different UFO, a UFO-looking directory without metainfo
                for pre in 0..5 {
                    rm_rf(&out);
                    prepare_target(&out, pre, &tree);
                    match guarded(|| f.save(&out)) {
                        Ok(Ok(())) => {
                            prestates.insert(tree_hash(&out));
                        }
                        _ => {
                            prestates.insert(3);
                        }
                    }
                }
                rm_rf(&out);
            }
        }
    }
    let exe = std::env::current_exe().unwrap();
    for j in 0..procs {
        let o = dir.join(format!("outp{}.ufo", j));
        let r = std::process::Command::new(&exe).arg("c10child").arg(&tree).arg(&o).arg(edits_tok(&c.edits)).output();
        match r {
            Ok(outp) if outp.status.success() => {
                let txt = String::from_utf8_lossy(&outp.stdout).trim().to_string();
                let mut it = txt.splitn(3, ' ');
                let h = u64::from_str_radix(it.next().unwrap_or("0"), 16).unwrap_or(2);
                let s = it.next().unwrap_or("0") == "1";
                let d = it.next().unwrap_or("").to_string();
                dumps.insert(d);
                trees.insert(h);
                sorted &= s;
            }
            _ => {
                dumps.insert("child-failed".to_string());
            }
        }
        rm_rf(&o);
    }
    rm_rf(&tree);
    let first = first.unwrap_or_default();
    if first.starts_with("err") || first == "panic" {
        return format!("err d={}", dumps.len());
    }
    // compared part of the dump: groups, kerning, features
    let toks: Vec<&str> = first.split(' ').collect();
    format!("ok d={} t={} sorted={} p={} {} {} {}", dumps.len(), trees.len(), sorted as u8, prestates.len(), toks[0], toks[1], toks[2])
}

pub fn edits_tok(e: &[(String, String)]) -> String {
    format!("E:{}", e.iter().map(|(k, v)| format!("{}={}", hexs(k), hexs(v))).collect::<Vec<_>>().join(","))
}

pub fn parse_edits(t: &str) -> Vec<(String, String)> {
    t[2..]
        .split(',')
        .filter(|x| !x.is_empty())
        .map(|e| {
            let (k, v) = e.split_once('=').unwrap();
            (String::from_utf8(unhex(k)).unwrap(), String::from_utf8(unhex(v)).unwrap())
        })
        .collect()
}

impl DCase {
    pub fn tokens(&self) -> String {
        let base = self.base.tokens();
        // "C15 load <fmt> <G> <K> S:.. L:.." -> fmt G K L
        let t: Vec<&str> = base.split(' ').collect();
        let f = match &self.classes {
            None => "F!".to_string(),
            Some(s) => format!("F:{}", hexs(s)),
        };
        let o = match &self.order {
            None => "O!".to_string(),
            Some(v) => format!("O:{}", v.iter().map(|x| hexs(x)).collect::<Vec<_>>().join(",")),
        };
        let b = match &self.blocks {
            None => "B!".to_string(),
            Some(m) => format!("B:{}", m.iter().map(|(k, v)| format!("{}={}", hexs(k), hexs(v))).collect::<Vec<_>>().join(";")),
        };
        format!("C10 det {} {} {} {} {} {} {} X:{} {}", t[2], t[3], t[4], t[6], f, o, b, self.extra, edits_tok(&self.edits))
    }
    pub fn from_tokens(toks: &[&str]) -> DCase {
        let un = |s: &str| String::from_utf8(unhex(s)).unwrap();
        let base_toks = vec!["C15", "load", toks[2], toks[3], toks[4], &toks[5].replacen("L:", "S:", 1)[..], toks[5]]
            .into_iter()
            .map(|s| s.to_string())
            .collect::<Vec<_>>();
        let refs: Vec<&str> = base_toks.iter().map(|s| s.as_str()).collect();
        let base = Case::from_tokens(&refs);
        let classes = if toks[6] == "F!" { None } else { Some(un(&toks[6][2..])) };
        let order = if toks[7] == "O!" {
            None
        } else {
            Some(toks[7][2..].split(',').filter(|x| !x.is_empty()).map(un).collect())
        };
        let blocks = if toks[8] == "B!" {
            None
        } else {
            Some(
                toks[8][2..]
                    .split(';')
                    .filter(|x| !x.is_empty())
                    .map(|e| {
                        let (k, v) = e.split_once('=').unwrap();
                        (un(k), un(v))
                    })
                    .collect(),
            )
        };
        let extra = toks[9][2..].parse().unwrap();
        let edits = if toks.len() > 10 { parse_edits(toks[10]) } else { Vec::new() };
        DCase { base, classes, order, blocks, extra, edits }
    }
}


// ---------------------------------------------------------------- equal fonts, different insertion histories
//
// `C10 lib <V1> <V2> => eq=<0|1> same=<0|1> lg=<0|1> W1:<V> W2:<V>`
// `<V>` = `i<int>` | `s<hex>` | `d(<hexkey>=<V>,..)` | `a(<V>,..)` (dictionary entries in insertion order).
// Two fonts are built through the API with the font lib, the default layer's lib and the lib of one
// glyph set to V1 resp. V2; `eq` = the two `Font`s compare equal, `same` = their saved trees are byte
// identical, `W1`/`W2` = the font lib as written (entry order of the reloaded lib.plist), `lg` = the
// layerinfo lib and the glyph lib were written in the same order as the font lib.

pub fn val_tok(v: &plist::Value) -> String {
    match v {
        plist::Value::Integer(i) => format!("i{}", i.as_signed().unwrap_or(0)),
        plist::Value::String(s) => format!("s{}", hexs(s)),
        plist::Value::Dictionary(d) => {
            format!("d({})", d.iter().map(|(k, v)| format!("{}={}", hexs(k), val_tok(v))).collect::<Vec<_>>().join(","))
        }
        plist::Value::Array(a) => format!("a({})", a.iter().map(val_tok).collect::<Vec<_>>().join(",")),
        _ => "i0".to_string(),
    }
}

fn parse_val_at(b: &[u8], i: &mut usize) -> plist::Value {
    let c = b[*i];
    *i += 1;
    match c {
        b'i' => {
            let st = *i;
            while *i < b.len() && (b[*i] == b'-' || b[*i].is_ascii_digit()) {
                *i += 1;
            }
            plist::Value::Integer(std::str::from_utf8(&b[st..*i]).unwrap().parse::<i64>().unwrap().into())
        }
        b's' => {
            let st = *i;
            while *i < b.len() && (b[*i] == b'-' || b[*i].is_ascii_hexdigit()) {
                *i += 1;
            }
            plist::Value::String(String::from_utf8(unhex(std::str::from_utf8(&b[st..*i]).unwrap())).unwrap())
        }
        b'd' => {
            *i += 1; // (
            let mut d = plist::Dictionary::new();
            while b[*i] != b')' {
                if b[*i] == b',' {
                    *i += 1;
                }
                let st = *i;
                while b[*i] != b'=' {
                    *i += 1;
                }
                let k = String::from_utf8(unhex(std::str::from_utf8(&b[st..*i]).unwrap())).unwrap();
                *i += 1;
                let v = parse_val_at(b, i);
                d.insert(k, v);
            }
            *i += 1;
            plist::Value::Dictionary(d)
        }
        b'a' => {
            *i += 1;
            let mut a = Vec::new();
            while b[*i] != b')' {
                if b[*i] == b',' {
                    *i += 1;
                }
                a.push(parse_val_at(b, i));
            }
            *i += 1;
            plist::Value::Array(a)
        }
        _ => panic!("bad value token"),
    }
}

pub fn parse_val(t: &str) -> plist::Value {
    let mut i = 0;
    parse_val_at(t.as_bytes(), &mut i)
}

const LIB_KEYS: &[&str] = &["a", "b", "c", "k", "z", "A", "com.x", "\u{e9}"];

fn gen_val(rng: &mut Rng, depth: usize, want_dict: bool) -> plist::Value {
    let r = if want_dict { 0 } else { rng.below(10) };
    if depth > 0 && r < 4 {
        let mut d = plist::Dictionary::new();
        for _ in 0..rng.below(4) + if want_dict { 1 } else { 0 } {
            let k = rng.pick(LIB_KEYS).to_string();
            let v = gen_val(rng, depth - 1, false);
            d.insert(k, v);
        }
        plist::Value::Dictionary(d)
    } else if depth > 0 && r < 6 {
        let n = rng.below(3);
        plist::Value::Array((0..n).map(|_| gen_val(rng, depth - 1, false)).collect())
    } else if r < 8 {
        plist::Value::Integer((rng.range(-5, 5)).into())
    } else {
        plist::Value::String(rng.pick(&["x", "y", "hello"]).to_string())
    }
}

/// the same value with the entries of every dictionary (also inside arrays) re-inserted in another order
fn reorder(rng: &mut Rng, v: &plist::Value, inside_arrays: bool, in_array: bool) -> plist::Value {
    match v {
        plist::Value::Dictionary(d) => {
            let mut es: Vec<(String, plist::Value)> =
                d.iter().map(|(k, v)| (k.clone(), reorder(rng, v, inside_arrays, in_array))).collect();
            if !in_array || inside_arrays {
                for i in (1..es.len()).rev() {
                    let j = rng.below(i + 1);
                    es.swap(i, j);
                }
            }
            let mut nd = plist::Dictionary::new();
            for (k, v) in es {
                nd.insert(k, v);
            }
            plist::Value::Dictionary(nd)
        }
        plist::Value::Array(a) => plist::Value::Array(a.iter().map(|x| reorder(rng, x, inside_arrays, true)).collect()),
        other => other.clone(),
    }
}

fn build_font(v: &plist::Value) -> Font {
    let d = v.as_dictionary().cloned().unwrap_or_default();
    let mut f = Font::new();
    f.lib = d.clone();
    f.default_layer_mut().lib = d.clone();
    let mut g = norad::Glyph::new("a");
    g.lib = d;
    f.default_layer_mut().insert_glyph(g);
    f
}

pub fn observe_lib(v1: &plist::Value, v2: &plist::Value, dir: &Path) -> String {
    let f1 = build_font(v1);
    let f2 = build_font(v2);
    let eq = f1 == f2;
    let o1 = dir.join("lib1.ufo");
    let o2 = dir.join("lib2.ufo");
    rm_rf(&o1);
    rm_rf(&o2);
    let r1 = guarded(|| f1.save(&o1));
    let r2 = guarded(|| f2.save(&o2));
    if !matches!(r1, Ok(Ok(()))) || !matches!(r2, Ok(Ok(()))) {
        rm_rf(&o1);
        rm_rf(&o2);
        return "err save".to_string();
    }
    let same = tree_hash(&o1) == tree_hash(&o2);
    let written = |o: &Path| -> (String, bool) {
        match guarded(|| Font::load(o)) {
            Ok(Ok(f)) => {
                let w = val_tok(&plist::Value::Dictionary(f.lib.clone()));
                let wl = val_tok(&plist::Value::Dictionary(f.default_layer().lib.clone()));
                let wg = f.get_glyph("a").map(|g| val_tok(&plist::Value::Dictionary(g.lib.clone()))).unwrap_or_default();
                let lg = wl == w && wg == w;
                (w, lg)
            }
            _ => ("reload-failed".to_string(), false),
        }
    };
    let (w1, lg1) = written(&o1);
    let (w2, lg2) = written(&o2);
    rm_rf(&o1);
    rm_rf(&o2);
    format!("eq={} same={} lg={} W1:{} W2:{}", eq as u8, same as u8, (lg1 && lg2) as u8, w1, w2)
}

fn gen_lib_lines(rng: &mut Rng, n: usize, dir: &Path, out: &mut dyn Write) {
    for i in 0..n {
        let v1 = gen_val(rng, 4, true);
        // most cases: reorder only where the sort reaches (outside arrays); a share also inside arrays;
        // a few with a changed value (unequal fonts)
        let inside = i % 4 == 0;
        let mut v2 = reorder(rng, &v1, inside, false);
        if i % 17 == 5 {
            if let plist::Value::Dictionary(d) = &mut v2 {
                d.insert("changed".to_string(), plist::Value::Integer(1.into()));
            }
        }
        // an empty lib is not written at all; keep at least one entry
        if v1.as_dictionary().map(|d| d.is_empty()).unwrap_or(true) {
            continue;
        }
        let obs = observe_lib(&v1, &v2, dir);
        writeln!(out, "C10 lib {} {} => {}", val_tok(&v1), val_tok(&v2), obs).unwrap();
    }
}

// ---------------------------------------------------------------- trees the unchanged code refuses: duplicate identifiers
//
// `C10 dup <a> <b> <same> => ok d=<#outcomes> t=<#trees> | err d=<#outcomes>`
// A format 3 tree with one glyph holding two objects of every kind that can carry an identifier (c contour, p point,
// m component, a anchor, g guideline) and a fontinfo with two guidelines (F).  `same = 1`: the first object of kind `a`
// and the second of kind `b` share one identifier (for F: the two fontinfo guidelines; `F g`: a fontinfo guideline and a
// glyph guideline - different scopes).  Loaded repeatedly in-process and in fresh processes: the outcome class (ok /
// which error) must be the same every time, and when ok the fonts equal (`d` = number of different outcomes).

fn dup_tree(dir: &Path, a: &str, b: &str, same: bool) {
    rm_rf(dir);
    std::fs::create_dir_all(dir.join("glyphs")).unwrap();
    let id = |kind: &str, n: usize| -> String {
        if same && ((kind == a && n == 1) || (kind == b && n == 2)) {
            "shared".to_string()
        } else {
            format!("{}{}", kind, n)
        }
    };
    std::fs::write(dir.join("metainfo.plist"), format!("{}<dict>\n<key>creator</key>\n<string>verif</string>\n<key>formatVersion</key>\n<integer>3</integer>\n</dict>\n</plist>\n", PLIST_HEAD)).unwrap();
    std::fs::write(dir.join("layercontents.plist"), format!("{}<array>\n<array>\n<string>public.default</string>\n<string>glyphs</string>\n</array>\n</array>\n</plist>\n", PLIST_HEAD)).unwrap();
    std::fs::write(dir.join("glyphs").join("contents.plist"), format!("{}<dict>\n<key>a</key>\n<string>a.glif</string>\n</dict>\n</plist>\n", PLIST_HEAD)).unwrap();
    std::fs::write(
        dir.join("fontinfo.plist"),
        format!("{}<dict>\n<key>guidelines</key>\n<array>\n<dict><key>x</key><integer>1</integer><key>identifier</key><string>{}</string></dict>\n<dict><key>y</key><integer>2</integer><key>identifier</key><string>{}</string></dict>\n</array>\n</dict>\n</plist>\n", PLIST_HEAD, id("F", 1), id("F", 2)),
    )
    .unwrap();
    let glif = format!(
        "<?xml version=\"1.0\" encoding=\"UTF-8\"?>\n<glyph name=\"a\" format=\"2\">\n<advance width=\"10\"/>\n\
<guideline x=\"1\" identifier=\"{g1}\"/>\n<guideline y=\"2\" identifier=\"{g2}\"/>\n\
<anchor x=\"0\" y=\"0\" name=\"t\" identifier=\"{a1}\"/>\n<anchor x=\"1\" y=\"1\" name=\"u\" identifier=\"{a2}\"/>\n\
<outline>\n<component base=\"b\" identifier=\"{m1}\"/>\n<component base=\"b\" identifier=\"{m2}\"/>\n\
<contour identifier=\"{c1}\">\n<point x=\"0\" y=\"0\" type=\"line\" identifier=\"{p1}\"/>\n<point x=\"5\" y=\"0\" type=\"line\"/>\n</contour>\n\
<contour identifier=\"{c2}\">\n<point x=\"0\" y=\"9\" type=\"line\"/>\n<point x=\"5\" y=\"9\" type=\"line\" identifier=\"{p2}\"/>\n</contour>\n\
</outline>\n</glyph>\n",
        g1 = id("g", 1), g2 = id("g", 2), a1 = id("a", 1), a2 = id("a", 2), m1 = id("m", 1), m2 = id("m", 2),
        c1 = id("c", 1), c2 = id("c", 2), p1 = id("p", 1), p2 = id("p", 2)
    );
    std::fs::write(dir.join("glyphs").join("a.glif"), glif).unwrap();
}

pub fn observe_dup(a: &str, b: &str, same: bool, dir: &Path, loads: usize, procs: usize) -> String {
    let tree = dir.join("dup.ufo");
    let out = dir.join("dupout.ufo");
    dup_tree(&tree, a, b, same);
    let mut outcomes: BTreeSet<String> = BTreeSet::new();
    let mut trees: BTreeSet<u64> = BTreeSet::new();
    let mut first: Option<String> = None;
    for _ in 0..loads {
        let (d, h, _) = load_save(&tree, &out, &[]);
        if first.is_none() {
            first = Some(d.clone());
        }
        outcomes.insert(d);
        trees.insert(h);
    }
    let exe = std::env::current_exe().unwrap();
    for j in 0..procs {
        let o = dir.join(format!("dupp{}.ufo", j));
        match std::process::Command::new(&exe).arg("c10child").arg(&tree).arg(&o).arg("E:").output() {
            Ok(outp) if outp.status.success() => {
                let txt = String::from_utf8_lossy(&outp.stdout).trim().to_string();
                let mut it = txt.splitn(3, ' ');
                let h = u64::from_str_radix(it.next().unwrap_or("0"), 16).unwrap_or(2);
                let _ = it.next();
                outcomes.insert(it.next().unwrap_or("").to_string());
                trees.insert(h);
            }
            _ => {
                outcomes.insert("child-failed".to_string());
            }
        }
        rm_rf(&o);
    }
    rm_rf(&tree);
    let first = first.unwrap_or_default();
    if first.starts_with("err") || first == "panic" {
        format!("err d={} {}", outcomes.len(), first.replace(' ', ":"))
    } else {
        format!("ok d={} t={}", outcomes.len(), trees.len())
    }
}

const DUP_KINDS: &[&str] = &["c", "p", "m", "a", "g"];

fn gen_dup_lines(dir: &Path, out: &mut dyn Write, loads: usize) {
    let mut cases: Vec<(String, String, bool)> = vec![("c".into(), "c".into(), false), ("F".into(), "F".into(), true), ("F".into(), "g".into(), true)];
    for (i, a) in DUP_KINDS.iter().enumerate() {
        for b in &DUP_KINDS[i..] {
            cases.push((a.to_string(), b.to_string(), true));
            if a != b {
                cases.push((b.to_string(), a.to_string(), true));
            }
        }
    }
    for (a, b, same) in cases {
        let obs = observe_dup(&a, &b, same, dir, loads, 2);
        writeln!(out, "C10 dup {} {} {} => {}", a, b, same as u8, obs).unwrap();
    }
}

fn scratch() -> PathBuf {
    let p = scratch_root().join("c10");
    std::fs::create_dir_all(&p).unwrap();
    p
}

pub fn observe(toks: &[&str]) -> String {
    if toks[1] == "dup" {
        let r = observe_dup(toks[2], toks[3], toks[4] == "1", &scratch(), 24, 3);
        rm_rf(&scratch());
        return r;
    }
    if toks[1] == "lib" {
        let r = observe_lib(&parse_val(toks[2]), &parse_val(toks[3]), &scratch());
        rm_rf(&scratch());
        return r;
    }
    let c = DCase::from_tokens(toks);
    let r = observe_case(&c, &scratch(), 24, 3);
    rm_rf(&scratch());
    r
}

const TAGS: &[&str] = &["kern", "liga", "aalt", "Kern", "KERN", "zero", "SS01", "ss01"];

fn gen_groups_colliding(rng: &mut Rng) -> (Groups, Kerning) {
    // several groups that collide after prefixing, on both sides
    let mut g = Groups::new();
    let mut k = Kerning::new();
    let l: &[&str] = &["A", "@MMK_L_A", "@MMK_L_@MMK_L_A", "@MMK_L_@MMK_R_A", "B", "@MMK_L_B"];
    let r: &[&str] = &["A", "@MMK_R_A", "@MMK_R_@MMK_R_A", "@MMK_R_@MMK_L_A", "B", "@MMK_R_B"];
    let mut i = 0;
    for n in l.iter().chain(r.iter()) {
        if rng.chance(2, 3) {
            g.insert(n.to_string(), vec![format!("m{}", i)]);
            i += 1;
        }
    }
    let keys: Vec<String> = g.keys().cloned().collect();
    if !keys.is_empty() {
        for _ in 0..rng.below(5) {
            let f = rng.pick(&keys).clone();
            let s = rng.pick(&keys).clone();
            k.entry(f).or_default().insert(s, rng.range(-50, 50) as f64);
        }
    }
    (g, k)
}

fn gen_dcase(rng: &mut Rng) -> DCase {
    let fmt = match rng.below(10) {
        0..=4 => 1,
        5..=7 => 2,
        _ => 3,
    };
    let (groups, kerning) = gen_groups_colliding(rng);
    let mut glyphs = BTreeSet::new();
    for g in c15::GLYPH_POOL {
        if rng.chance(1, 2) {
            glyphs.insert(g.to_string());
        }
    }
    let base = Case {
        fmt,
        groups: if rng.chance(1, 15) { None } else { Some(groups) },
        kerning: if rng.chance(1, 10) { None } else { Some(kerning) },
        glyphs,
        extra: BTreeSet::new(),
    };
    let classes = if rng.chance(1, 2) { Some("@c = [a b];\n".to_string()) } else { None };
    let blocks = if rng.chance(4, 5) {
        let mut m = BTreeMap::new();
        for _ in 0..rng.below(5) {
            let t = rng.pick(TAGS).to_string();
            let txt = format!("feature {} {{ sub a by b; }} {};\n", t, t);
            m.insert(t, txt);
        }
        Some(m)
    } else {
        None
    };
    let order = if rng.chance(1, 3) {
        let mut o: Vec<String> = Vec::new();
        for _ in 0..rng.below(5) {
            o.push(rng.pick(TAGS).to_string());
        }
        Some(o)
    } else {
        None
    };
    // data-store inserts; a share with keys that name the same file (`a.txt`, `./a.txt`)
    let mut edits: Vec<(String, String)> = Vec::new();
    if rng.chance(1, 3) {
        const KEYS: &[&str] = &["a.txt", "./a.txt", "b/c.txt", "b/./c.txt", "n.txt", "q/r/s.txt", "./n.txt", "q/r/t.txt"];
        for _ in 0..1 + rng.below(4) {
            let k = rng.pick(KEYS).to_string();
            if !edits.iter().any(|(x, _)| *x == k) {
                let v = format!("content-of-{}", edits.len());
                edits.push((k, v));
            }
        }
    }
    DCase { base, classes, order, blocks, extra: rng.below(8) as u32, edits }
}

/// a requested spelling and keys that collapse onto it under plausible normalisations (trim of ASCII and
/// Unicode blanks, BOM / zero-width characters, case folding, NFC/NFD, `_`/`-` variants).  A trailing NUL
/// cannot be carried by an XML plist and is left out.
const TAG_VARIANTS: &[(&str, &[&str])] = &[
    ("liga", &["liga ", " liga", "liga\t", "\u{a0}liga", "liga\u{2003}", "\u{feff}liga", "liga\u{feff}", "liga\u{200b}", "LIGA", "Liga", "liGa", " liga ", "liga\n"]),
    ("caf\u{e9}", &["cafe\u{301}", "caf\u{e9} ", "CAF\u{c9}", "Cafe\u{301}", " caf\u{e9}", "CAFE\u{301}"]),
    ("cafe\u{301}", &["caf\u{e9}", "cafe\u{301}\u{a0}", "CAF\u{c9}", " cafe\u{301}"]),
    ("ss-01", &["ss_01", "ss01", "SS-01", "ss-01 ", "ss\u{2013}01", "SS_01", " ss-01"]),
    ("kern", &[" kern", "kern ", "Kern", "KERN", "\u{3000}kern", "kern\u{3000}", "k\u{200d}ern"]),
];

/// format 1 tree whose feature dictionary holds two or more keys that collapse onto a tag of the order list
/// under a normalisation, without an exact key (the unmatched tag must be ignored, deterministically) or with
/// one (the exact key must win)
fn gen_variant_case(rng: &mut Rng) -> DCase {
    let (base_tag, variants) = *rng.pick(TAG_VARIANTS);
    let mut m: BTreeMap<String, String> = BTreeMap::new();
    let want = 2 + rng.below(3);
    while m.len() < want {
        let v = rng.pick(variants).to_string();
        let n = m.len();
        m.entry(v).or_insert_with(|| format!("# block {}\n", n));
    }
    if rng.chance(1, 2) {
        m.insert(base_tag.to_string(), "# exact block\n".to_string());
    }
    if rng.chance(1, 3) {
        m.insert("zero".to_string(), "# zero\n".to_string());
    }
    let order = if rng.chance(5, 6) {
        let mut o = vec![base_tag.to_string()];
        if rng.chance(1, 2) {
            o.push("zero".to_string());
        }
        if rng.chance(1, 3) {
            // one of the variants asked for verbatim, and the requested spelling twice
            o.push(rng.pick(variants).to_string());
            o.push(base_tag.to_string());
        }
        if rng.chance(1, 2) {
            o.reverse();
        }
        Some(o)
    } else {
        None
    };
    let mut glyphs = BTreeSet::new();
    glyphs.insert("a".to_string());
    let base = Case { fmt: 1, groups: None, kerning: None, glyphs, extra: BTreeSet::new() };
    DCase {
        base,
        classes: if rng.chance(1, 2) { Some("@c = [a b];\n".to_string()) } else { None },
        order,
        blocks: Some(m),
        extra: 0,
        edits: Vec::new(),
    }
}

pub fn gen(tier: &str, seed: u64, out: &mut dyn Write) {
    let mut rng = Rng::new(seed);
    let dir = scratch();
    let thorough = tier == "thorough";
    let n = if thorough { 3000 } else { 160 };
    let loads = if thorough { 32 } else { 12 };
    for i in 0..n {
        let c = gen_dcase(&mut rng);
        let procs = if i % 8 == 0 { if thorough { 4 } else { 2 } } else { 0 };
        let obs = observe_case(&c, &dir, loads, procs);
        writeln!(out, "{} => {}", c.tokens(), obs).unwrap();
    }
    gen_dup_lines(&dir, out, loads);
    // feature tags that collapse under a normalisation: every case also in fresh processes (new hash seeds)
    for i in 0..(if thorough { 800 } else { 80 }) {
        let c = gen_variant_case(&mut rng);
        let procs = if i % 2 == 0 { 2 } else { 0 };
        let obs = observe_case(&c, &dir, loads, procs);
        writeln!(out, "{} => {}", c.tokens(), obs).unwrap();
    }
    gen_lib_lines(&mut rng, if thorough { 20000 } else { 1200 }, &dir, out);
    rm_rf(&dir);
}
