//! Shared helpers: hex tokens, panic capture, scratch directories.
use std::panic::{catch_unwind, AssertUnwindSafe};
use std::path::{Path, PathBuf};

pub fn hex(bytes: &[u8]) -> String {
    if bytes.is_empty() {
        return "-".to_string();
    }
    let mut s = String::with_capacity(bytes.len() * 2);
    for b in bytes {
        s.push_str(&format!("{:02x}", b));
    }
    s
}

pub fn hexs(s: &str) -> String {
    hex(s.as_bytes())
}

pub fn unhex(s: &str) -> Vec<u8> {
    if s == "-" {
        return Vec::new();
    }
    (0..s.len() / 2).map(|i| u8::from_str_radix(&s[2 * i..2 * i + 2], 16).unwrap()).collect()
}

pub fn f64bits(x: f64) -> String {
    format!("{:016x}", x.to_bits())
}

/// Run `f`, turning a panic into `Err(message)`.
pub fn guarded<T>(f: impl FnOnce() -> T) -> Result<T, String> {
    match catch_unwind(AssertUnwindSafe(f)) {
        Ok(v) => Ok(v),
        Err(e) => {
            let msg = if let Some(s) = e.downcast_ref::<&str>() {
                s.to_string()
            } else if let Some(s) = e.downcast_ref::<String>() {
                s.clone()
            } else {
                "?".to_string()
            };
            Err(msg)
        }
    }
}

pub fn silence_panics() {
    std::panic::set_hook(Box::new(|_| {}));
}

/// Scratch root for trees: VERIF_SCRATCH or /verif/.build/scratch/<pid>.
pub fn scratch_root() -> PathBuf {
    let p = match std::env::var("VERIF_SCRATCH") {
        Ok(s) => PathBuf::from(s),
        Err(_) => PathBuf::from(format!("/verif/.build/scratch/h{}", std::process::id())),
    };
    std::fs::create_dir_all(&p).unwrap();
    p
}

pub fn rm_rf(p: &Path) {
    if p.is_dir() && !p.is_symlink() {
        let _ = std::fs::remove_dir_all(p);
    } else if p.exists() || p.is_symlink() {
        let _ = std::fs::remove_file(p);
    }
}

/// Recursive snapshot: sorted (relative path, kind, bytes) of everything under `root`.
pub fn snapshot(root: &Path) -> Vec<(String, char, Vec<u8>)> {
    let mut out = Vec::new();
    fn walk(base: &Path, p: &Path, out: &mut Vec<(String, char, Vec<u8>)>) {
        let rel = p.strip_prefix(base).unwrap().to_string_lossy().to_string();
        let md = match std::fs::symlink_metadata(p) {
            Ok(m) => m,
            Err(_) => return,
        };
        if md.file_type().is_symlink() {
            out.push((rel, 'l', std::fs::read_link(p).unwrap().to_string_lossy().as_bytes().to_vec()));
        } else if md.is_dir() {
            out.push((rel, 'd', Vec::new()));
            let mut names: Vec<_> = std::fs::read_dir(p).unwrap().map(|e| e.unwrap().path()).collect();
            names.sort();
            for n in names {
                walk(base, &n, out);
            }
        } else {
            out.push((rel, 'f', std::fs::read(p).unwrap_or_default()));
        }
    }
    if std::fs::symlink_metadata(root).is_ok() {
        walk(root, root, &mut out);
    }
    out
}

pub fn fnv(bytes: &[u8]) -> u64 {
    let mut h: u64 = 0xcbf29ce484222325;
    for b in bytes {
        h ^= *b as u64;
        h = h.wrapping_mul(0x100000001b3);
    }
    h
}
