//! C13: font info is accepted exactly when it satisfies the rules.
//!
//! line: `C13 <key=value tokens> => v=<..> s=<..> l=<..>`
//!   d=<hex date>  g=<ppem,..>  gl=<guide;guide..>  sel=<bit,..>  fc=<int,..>
//!   bv ob fb fob sh sv = <list length>   we=<rec;rec..> (rec = item,item.. | _ ; item = NxV)
//!   wc wp wd wt wl = <count>   pan=<int,..>  wcl=<int>  cs=<int>  sm=<hex>
//!   guide = v | h | a<16 hex> | n | xy | xa<16 hex> | ya<16 hex>   [#<hex identifier>]
//!   `-` is the empty list.  Values that do not fit the in-memory types are only sent through load.
//! observation:
//!   v = FontInfo::validate()            ok | err:<Kind> | panic | na
//!   s = Font::save over an existing dir ok | refused:<Kind> | late:<kept|wiped> | other | panic | na
//!   so / sq = the same through Font::save_with_options (default options / two-space indent and single quotes)
//!   l = Font::load of a generated tree  loaded:<same|diff|nomem> | parse | invalid:<Kind> | other | panic
//!   u2 = Font::load of a format-2 tree holding the same attributes (only date / selection / class / lists)   loaded | parse | invalid:<Kind> | other | panic | na
//!   u1 = Font::load of a format-1 tree whose lib carries the lists as org.robofab.postScriptHintData          (same classes)
use crate::common::*;
use crate::rng::Rng;
use norad::fontinfo::*;
use norad::{Font, FontInfo, Guideline, Identifier, Line};
use std::io::Write;
use std::path::{Path, PathBuf};

#[derive(Clone, Debug, Default)]
pub struct Raw {
    pub d: Option<String>,
    pub g: Option<Vec<i64>>,
    pub gl: Option<Vec<String>>,
    pub sel: Option<Vec<i64>>,
    pub fc: Option<Vec<i64>>,
    pub lens: [Option<usize>; 6], // bv ob fb fob sh sv
    pub we: Option<Vec<Vec<(usize, usize)>>>,
    pub wn: [Option<usize>; 5], // wc wp wd wt wl
    pub pan: Option<Vec<i64>>,
    pub wcl: Option<i64>,
    pub cs: Option<i64>,
    pub sm: Option<String>,
}

const LEN_KEYS: [&str; 6] = ["bv", "ob", "fb", "fob", "sh", "sv"];
const LEN_NAMES: [&str; 6] = [
    "postscriptBlueValues",
    "postscriptOtherBlues",
    "postscriptFamilyBlues",
    "postscriptFamilyOtherBlues",
    "postscriptStemSnapH",
    "postscriptStemSnapV",
];
const WN_KEYS: [&str; 5] = ["wc", "wp", "wd", "wt", "wl"];

fn ints(v: &[i64]) -> String {
    if v.is_empty() {
        "-".into()
    } else {
        v.iter().map(|x| x.to_string()).collect::<Vec<_>>().join(",")
    }
}

fn parse_ints(s: &str) -> Vec<i64> {
    if s == "-" {
        vec![]
    } else {
        s.split(',').map(|x| x.parse().unwrap()).collect()
    }
}

impl Raw {
    pub fn tokens(&self) -> String {
        let mut t: Vec<String> = Vec::new();
        if let Some(d) = &self.d {
            t.push(format!("d={}", hexs(d)));
        }
        if let Some(g) = &self.g {
            t.push(format!("g={}", ints(g)));
        }
        if let Some(gl) = &self.gl {
            t.push(format!("gl={}", if gl.is_empty() { "-".to_string() } else { gl.join(";") }));
        }
        if let Some(v) = &self.sel {
            t.push(format!("sel={}", ints(v)));
        }
        if let Some(v) = &self.fc {
            t.push(format!("fc={}", ints(v)));
        }
        for (k, l) in LEN_KEYS.iter().zip(self.lens.iter()) {
            if let Some(n) = l {
                t.push(format!("{}={}", k, n));
            }
        }
        if let Some(we) = &self.we {
            let s = if we.is_empty() {
                "-".to_string()
            } else {
                we.iter()
                    .map(|r| {
                        if r.is_empty() {
                            "_".to_string()
                        } else {
                            r.iter().map(|(n, v)| format!("{}x{}", n, v)).collect::<Vec<_>>().join(",")
                        }
                    })
                    .collect::<Vec<_>>()
                    .join(";")
            };
            t.push(format!("we={}", s));
        }
        for (k, l) in WN_KEYS.iter().zip(self.wn.iter()) {
            if let Some(n) = l {
                t.push(format!("{}={}", k, n));
            }
        }
        if let Some(v) = &self.pan {
            t.push(format!("pan={}", ints(v)));
        }
        if let Some(v) = self.wcl {
            t.push(format!("wcl={}", v));
        }
        if let Some(v) = self.cs {
            t.push(format!("cs={}", v));
        }
        if let Some(v) = &self.sm {
            t.push(format!("sm={}", hexs(v)));
        }
        if t.is_empty() {
            t.push("empty=1".into());
        }
        t.join(" ")
    }

    pub fn parse(toks: &[&str]) -> Raw {
        let mut r = Raw::default();
        for t in toks {
            let (k, v) = t.split_once('=').unwrap();
            match k {
                "d" => r.d = Some(String::from_utf8(unhex(v)).unwrap()),
                "g" => r.g = Some(parse_ints(v)),
                "gl" => {
                    r.gl = Some(if v == "-" { vec![] } else { v.split(';').map(|s| s.to_string()).collect() })
                }
                "sel" => r.sel = Some(parse_ints(v)),
                "fc" => r.fc = Some(parse_ints(v)),
                "we" => {
                    r.we = Some(if v == "-" {
                        vec![]
                    } else {
                        v.split(';')
                            .map(|rec| {
                                if rec == "_" {
                                    vec![]
                                } else {
                                    rec.split(',')
                                        .map(|it| {
                                            let (a, b) = it.split_once('x').unwrap();
                                            (a.parse().unwrap(), b.parse().unwrap())
                                        })
                                        .collect()
                                }
                            })
                            .collect()
                    })
                }
                "pan" => r.pan = Some(parse_ints(v)),
                "wcl" => r.wcl = Some(v.parse().unwrap()),
                "cs" => r.cs = Some(v.parse().unwrap()),
                "sm" => r.sm = Some(String::from_utf8(unhex(v)).unwrap()),
                "empty" | "route" | "files" | "req" => {}
                _ => {
                    if let Some(i) = LEN_KEYS.iter().position(|x| *x == k) {
                        r.lens[i] = Some(v.parse().unwrap());
                    } else if let Some(i) = WN_KEYS.iter().position(|x| *x == k) {
                        r.wn[i] = Some(v.parse().unwrap());
                    } else {
                        panic!("unknown key {}", k);
                    }
                }
            }
        }
        r
    }

    /// only attributes that exist in format 2 as well (date, selection bits, family class, the six lists)
    pub fn v2_expressible(&self) -> bool {
        self.g.is_none() && self.gl.is_none() && self.we.is_none() && self.wn.iter().all(|x| x.is_none())
            && self.pan.is_none() && self.wcl.is_none() && self.cs.is_none() && self.sm.is_none()
    }

    /// only the six lists: they can travel as robofab hint data in a format-1 lib
    pub fn hint_expressible(&self) -> bool {
        self.v2_expressible() && self.d.is_none() && self.sel.is_none() && self.fc.is_none()
    }

    /// lib.plist of a format-1 font carrying the lists as `org.robofab.postScriptHintData`
    pub fn hint_lib(&self) -> String {
        self.hint_lib_with("")
    }

    /// the same with further keys in the lib dictionary
    pub fn hint_lib_with(&self, extra: &str) -> String {
        let mut s = String::from(PLIST_HEAD);
        s.push_str("<dict>");
        s.push_str(extra);
        s.push_str("<key>org.robofab.postScriptHintData</key><dict>\n");
        let names = ["blueValues", "otherBlues", "familyBlues", "familyOtherBlues", "hStems", "vStems"];
        for (i, l) in self.lens.iter().enumerate() {
            if let Some(n) = l {
                s.push_str(&format!("<key>{}</key><array>", names[i]));
                if i < 4 {
                    // zones are lists of lists: pairs, a trailing single element when the length is odd,
                    // and for lengths divisible by 3 one row of three (rows need not be pairs)
                    let mut k = 0;
                    while k < *n {
                        let w = if *n % 3 == 0 && *n > 3 && k == 0 { 3 } else { 2 }.min(*n - k);
                        s.push_str("<array>");
                        for j in 0..w {
                            s.push_str(&format!("<integer>{}</integer>", (k + j) * 10));
                        }
                        s.push_str("</array>");
                        k += w;
                    }
                } else {
                    for k in 0..*n {
                        s.push_str(&format!("<integer>{}</integer>", 50 + k));
                    }
                }
                s.push_str("</array>\n");
            }
        }
        s.push_str("</dict></dict>\n</plist>\n");
        s
    }

    /// the in-memory value, if every field fits norad's types
    pub fn build(&self) -> Option<FontInfo> {
        let mut fi = FontInfo::default();
        fi.open_type_head_created = self.d.clone();
        if let Some(g) = &self.g {
            let mut v = Vec::new();
            for p in g {
                v.push(GaspRangeRecord {
                    range_max_ppem: u32::try_from(*p).ok()?,
                    range_gasp_behavior: vec![GaspBehavior::Gridfit],
                });
            }
            fi.open_type_gasp_range_records = Some(v);
        }
        if let Some(gl) = &self.gl {
            let mut v = Vec::new();
            for g in gl {
                let (shape, id) = match g.split_once('#') {
                    Some((s, i)) => (s, Some(String::from_utf8(unhex(i)).unwrap())),
                    None => (g.as_str(), None),
                };
                let id = match id {
                    Some(s) => Some(Identifier::new(&s).ok()?),
                    None => None,
                };
                let line = if shape == "v" {
                    Line::Vertical(10.0)
                } else if shape == "h" {
                    Line::Horizontal(20.0)
                } else if let Some(b) = shape.strip_prefix('a') {
                    Line::Angle { x: 1.0, y: 2.0, degrees: f64::from_bits(u64::from_str_radix(b, 16).unwrap()) }
                } else {
                    return None;
                };
                v.push(Guideline::new(line, None, None, id));
            }
            fi.guidelines = Some(v);
        }
        if let Some(s) = &self.sel {
            let mut v = Vec::new();
            for b in s {
                v.push(u8::try_from(*b).ok()?);
            }
            fi.open_type_os2_selection = Some(v);
        }
        if let Some(fc) = &self.fc {
            if fc.len() != 2 {
                return None;
            }
            fi.open_type_os2_family_class =
                Some(Os2FamilyClass { class_id: u8::try_from(fc[0]).ok()?, subclass_id: u8::try_from(fc[1]).ok()? });
        }
        let mk = |n: usize| -> Vec<f64> { (0..n).map(|k| (k as f64) * 10.0 - 20.0).collect() };
        fi.postscript_blue_values = self.lens[0].map(mk);
        fi.postscript_other_blues = self.lens[1].map(mk);
        fi.postscript_family_blues = self.lens[2].map(mk);
        fi.postscript_family_other_blues = self.lens[3].map(mk);
        fi.postscript_stem_snap_h = self.lens[4].map(mk);
        fi.postscript_stem_snap_v = self.lens[5].map(mk);
        if let Some(we) = &self.we {
            fi.woff_metadata_extensions = Some(
                we.iter()
                    .map(|rec| WoffMetadataExtensionRecord {
                        id: None,
                        names: vec![],
                        items: rec
                            .iter()
                            .map(|(n, v)| WoffMetadataExtensionItemRecord {
                                id: None,
                                names: (0..*n)
                                    .map(|_| WoffMetadataExtensionNameRecord {
                                        text: "n".into(),
                                        language: None,
                                        dir: None,
                                        class: None,
                                    })
                                    .collect(),
                                values: (0..*v)
                                    .map(|_| WoffMetadataExtensionValueRecord {
                                        text: "v".into(),
                                        language: None,
                                        dir: None,
                                        class: None,
                                    })
                                    .collect(),
                            })
                            .collect(),
                    })
                    .collect(),
            );
        }
        let texts = |n: usize| -> Vec<WoffMetadataTextRecord> {
            (0..n).map(|_| WoffMetadataTextRecord { text: "t".into(), language: None, dir: None, class: None }).collect()
        };
        fi.woff_metadata_credits = self.wn[0].map(|n| WoffMetadataCredits {
            credits: (0..n)
                .map(|_| WoffMetadataCredit { name: "c".into(), url: None, role: None, dir: None, class: None })
                .collect(),
        });
        fi.woff_metadata_copyright = self.wn[1].map(|n| WoffMetadataCopyright { text: texts(n) });
        fi.woff_metadata_description = self.wn[2].map(|n| WoffMetadataDescription { url: None, text: texts(n) });
        fi.woff_metadata_trademark = self.wn[3].map(|n| WoffMetadataTrademark { text: texts(n) });
        fi.woff_metadata_license = self.wn[4].map(|n| WoffMetadataLicense { url: None, id: None, text: texts(n) });
        if let Some(p) = &self.pan {
            if p.len() != 10 {
                return None;
            }
            let mut q = [0u32; 10];
            for (k, x) in p.iter().enumerate() {
                q[k] = u32::try_from(*x).ok()?;
            }
            fi.open_type_os2_panose = Some(Os2Panose {
                family_type: q[0],
                serif_style: q[1],
                weight: q[2],
                proportion: q[3],
                contrast: q[4],
                stroke_variation: q[5],
                arm_style: q[6],
                letterform: q[7],
                midline: q[8],
                x_height: q[9],
            });
        }
        if let Some(w) = self.wcl {
            fi.open_type_os2_width_class = Some(match w {
                1 => Os2WidthClass::UltraCondensed,
                2 => Os2WidthClass::ExtraCondensed,
                3 => Os2WidthClass::Condensed,
                4 => Os2WidthClass::SemiCondensed,
                5 => Os2WidthClass::Normal,
                6 => Os2WidthClass::SemiExpanded,
                7 => Os2WidthClass::Expanded,
                8 => Os2WidthClass::ExtraExpanded,
                9 => Os2WidthClass::UltraExpanded,
                _ => return None,
            });
        }
        if let Some(c) = self.cs {
            // only through load (the enum has no public constructor from a number)
            let _ = c;
            return None;
        }
        if let Some(s) = &self.sm {
            fi.style_map_style_name = Some(match s.as_str() {
                "regular" => StyleMapStyle::Regular,
                "italic" => StyleMapStyle::Italic,
                "bold" => StyleMapStyle::Bold,
                "bold italic" => StyleMapStyle::BoldItalic,
                _ => return None,
            });
        }
        Some(fi)
    }

    /// fontinfo.plist text for this value (written by hand so that ill-typed values can be expressed)
    pub fn plist(&self) -> String {
        let mut s = String::from(
            "<?xml version=\"1.0\" encoding=\"UTF-8\"?>\n<!DOCTYPE plist PUBLIC \"-//Apple//DTD PLIST 1.0//EN\" \"http://www.apple.com/DTDs/PropertyList-1.0.dtd\">\n<plist version=\"1.0\">\n<dict>\n",
        );
        let int_array = |v: &[i64]| -> String {
            let mut a = String::from("<array>");
            for x in v {
                a.push_str(&format!("<integer>{}</integer>", x));
            }
            a.push_str("</array>\n");
            a
        };
        if let Some(d) = &self.d {
            s.push_str(&format!("<key>openTypeHeadCreated</key><string>{}</string>\n", xml_escape(d)));
        }
        if let Some(g) = &self.g {
            s.push_str("<key>openTypeGaspRangeRecords</key><array>");
            for p in g {
                s.push_str(&format!(
                    "<dict><key>rangeMaxPPEM</key><integer>{}</integer><key>rangeGaspBehavior</key><array><integer>0</integer></array></dict>",
                    p
                ));
            }
            s.push_str("</array>\n");
        }
        if let Some(gl) = &self.gl {
            s.push_str("<key>guidelines</key><array>");
            for g in gl {
                let (shape, id) = match g.split_once('#') {
                    Some((sh, i)) => (sh, Some(String::from_utf8(unhex(i)).unwrap())),
                    None => (g.as_str(), None),
                };
                s.push_str("<dict>");
                let (x, y, a): (Option<f64>, Option<f64>, Option<f64>) = {
                    let ang = |b: &str| Some(f64::from_bits(u64::from_str_radix(b, 16).unwrap()));
                    if shape == "v" {
                        (Some(10.0), None, None)
                    } else if shape == "h" {
                        (None, Some(20.0), None)
                    } else if shape == "n" {
                        (None, None, None)
                    } else if shape == "xy" {
                        (Some(1.0), Some(2.0), None)
                    } else if let Some(b) = shape.strip_prefix("xa") {
                        (Some(1.0), None, ang(b))
                    } else if let Some(b) = shape.strip_prefix("ya") {
                        (None, Some(2.0), ang(b))
                    } else if let Some(b) = shape.strip_prefix('a') {
                        (Some(1.0), Some(2.0), ang(b))
                    } else {
                        panic!("bad guide {}", shape)
                    }
                };
                if let Some(x) = x {
                    s.push_str(&format!("<key>x</key><real>{:?}</real>", x));
                }
                if let Some(y) = y {
                    s.push_str(&format!("<key>y</key><real>{:?}</real>", y));
                }
                if let Some(a) = a {
                    // integral values alternately as <integer>, as other writers do
                    if a.fract() == 0.0 && a.abs() < 1e9 && (a as i64) % 2 == 0 && !(a == 0.0 && a.is_sign_negative()) {
                        s.push_str(&format!("<key>angle</key><integer>{}</integer>", a as i64));
                    } else {
                        s.push_str(&format!("<key>angle</key><real>{:?}</real>", a));
                    }
                }
                if let Some(i) = id {
                    s.push_str(&format!("<key>identifier</key><string>{}</string>", xml_escape(&i)));
                }
                s.push_str("</dict>");
            }
            s.push_str("</array>\n");
        }
        if let Some(v) = &self.sel {
            s.push_str("<key>openTypeOS2Selection</key>");
            s.push_str(&int_array(v));
        }
        if let Some(v) = &self.fc {
            s.push_str("<key>openTypeOS2FamilyClass</key>");
            s.push_str(&int_array(v));
        }
        for (i, l) in self.lens.iter().enumerate() {
            if let Some(n) = l {
                s.push_str(&format!("<key>{}</key><array>", LEN_NAMES[i]));
                for k in 0..*n {
                    let val = (k as f64) * 10.0 - 20.0;
                    if k % 2 == 0 {
                        s.push_str(&format!("<integer>{}</integer>", val as i64));
                    } else {
                        s.push_str(&format!("<real>{:?}</real>", val));
                    }
                }
                s.push_str("</array>\n");
            }
        }
        let texts = |n: usize| -> String {
            let mut a = String::from("<array>");
            for _ in 0..n {
                a.push_str("<dict><key>text</key><string>t</string></dict>");
            }
            a.push_str("</array>");
            a
        };
        if let Some(we) = &self.we {
            s.push_str("<key>woffMetadataExtensions</key><array>");
            for rec in we {
                s.push_str("<dict><key>names</key><array></array><key>items</key><array>");
                for (n, v) in rec {
                    s.push_str("<dict><key>names</key><array>");
                    for _ in 0..*n {
                        s.push_str("<dict><key>text</key><string>n</string></dict>");
                    }
                    s.push_str("</array><key>values</key><array>");
                    for _ in 0..*v {
                        s.push_str("<dict><key>text</key><string>v</string></dict>");
                    }
                    s.push_str("</array></dict>");
                }
                s.push_str("</array></dict>");
            }
            s.push_str("</array>\n");
        }
        if let Some(n) = self.wn[0] {
            s.push_str("<key>woffMetadataCredits</key><dict><key>credits</key><array>");
            for _ in 0..n {
                s.push_str("<dict><key>name</key><string>c</string></dict>");
            }
            s.push_str("</array></dict>\n");
        }
        for (i, key) in [(1, "woffMetadataCopyright"), (2, "woffMetadataDescription"), (3, "woffMetadataTrademark"), (4, "woffMetadataLicense")] {
            if let Some(n) = self.wn[i] {
                s.push_str(&format!("<key>{}</key><dict><key>text</key>{}</dict>\n", key, texts(n)));
            }
        }
        if let Some(v) = &self.pan {
            s.push_str("<key>openTypeOS2Panose</key>");
            s.push_str(&int_array(v));
        }
        if let Some(v) = self.wcl {
            s.push_str(&format!("<key>openTypeOS2WidthClass</key><integer>{}</integer>\n", v));
        }
        if let Some(v) = self.cs {
            s.push_str(&format!("<key>postscriptWindowsCharacterSet</key><integer>{}</integer>\n", v));
        }
        if let Some(v) = &self.sm {
            s.push_str(&format!("<key>styleMapStyleName</key><string>{}</string>\n", xml_escape(v)));
        }
        s.push_str("</dict>\n</plist>\n");
        s
    }
}

pub fn xml_escape(s: &str) -> String {
    s.replace('&', "&amp;").replace('<', "&lt;").replace('>', "&gt;")
}

fn kind(e: &norad::error::FontInfoErrorKind) -> String {
    let d = format!("{:?}", e);
    let name: String = d.chars().take_while(|c| c.is_ascii_alphanumeric()).collect();
    name
}

pub const PLIST_HEAD: &str = "<?xml version=\"1.0\" encoding=\"UTF-8\"?>\n<!DOCTYPE plist PUBLIC \"-//Apple//DTD PLIST 1.0//EN\" \"http://www.apple.com/DTDs/PropertyList-1.0.dtd\">\n<plist version=\"1.0\">\n";

/// a minimal format-3 tree without fontinfo.plist
pub fn base_tree(dir: &Path, format: u32) {
    rm_rf(dir);
    std::fs::create_dir_all(dir.join("glyphs")).unwrap();
    std::fs::write(
        dir.join("metainfo.plist"),
        format!(
            "{}<dict><key>creator</key><string>org.verif</string><key>formatVersion</key><integer>{}</integer></dict></plist>\n",
            PLIST_HEAD, format
        ),
    )
    .unwrap();
    if format == 3 {
        std::fs::write(
            dir.join("layercontents.plist"),
            format!("{}<array><array><string>public.default</string><string>glyphs</string></array></array></plist>\n", PLIST_HEAD),
        )
        .unwrap();
    }
    std::fs::write(dir.join("glyphs").join("contents.plist"), format!("{}<dict></dict></plist>\n", PLIST_HEAD)).unwrap();
}

pub struct Ctx {
    load_dir: PathBuf,
    save_dir: PathBuf,
    v2_dir: PathBuf,
    v1_dir: PathBuf,
}

impl Ctx {
    pub fn new() -> Ctx {
        let root = scratch_root().join("c13");
        let load_dir = root.join("load.ufo");
        base_tree(&load_dir, 3);
        let v2_dir = root.join("v2.ufo");
        base_tree(&v2_dir, 2);
        let v1_dir = root.join("v1.ufo");
        base_tree(&v1_dir, 1);
        std::fs::write(v1_dir.join("fontinfo.plist"), format!("{}<dict></dict></plist>\n", PLIST_HEAD)).unwrap();
        Ctx { load_dir, save_dir: root.join("save.ufo"), v2_dir, v1_dir }
    }
}

pub fn observe(ctx: &Ctx, raw: &Raw) -> String {
    let mem = raw.build();
    // validate
    let v = match &mem {
        None => "na".to_string(),
        Some(fi) => match guarded(|| fi.validate()) {
            Err(_) => "panic".into(),
            Ok(Ok(())) => "ok".into(),
            Ok(Err(e)) => format!("err:{}", kind(&e)),
        },
    };
    // save over an existing directory holding a marker, through every public save entry point:
    // Font::save, Font::save_with_options(default options), Font::save_with_options(custom options)
    let save_via = |mode: usize| -> String {
        match &mem {
            None => "na".to_string(),
            Some(fi) => {
                rm_rf(&ctx.save_dir);
                std::fs::create_dir_all(&ctx.save_dir).unwrap();
                std::fs::write(ctx.save_dir.join("marker"), b"m").unwrap();
                let mut font = Font::new();
                font.font_info = fi.clone();
                let res = guarded(|| match mode {
                    0 => font.save(&ctx.save_dir),
                    1 => font.save_with_options(&ctx.save_dir, &norad::WriteOptions::default()),
                    _ => font.save_with_options(
                        &ctx.save_dir,
                        &norad::WriteOptions::new().indent(norad::WriteOptions::SPACE, 2).quote_char(norad::QuoteChar::Single),
                    ),
                });
                match res {
                    Err(_) => "panic".into(),
                    Ok(Ok(())) => {
                        // what was written must load again and hold the same info
                        match guarded(|| Font::load(&ctx.save_dir)) {
                            Ok(Ok(f2)) => {
                                if f2.font_info == *fi {
                                    "ok".into()
                                } else {
                                    "ok:reload-differs".into()
                                }
                            }
                            _ => "ok:reload-fails".into(),
                        }
                    }
                    Ok(Err(e)) => {
                        let kept = ctx.save_dir.join("marker").exists();
                        match e {
                            norad::error::FontWriteError::InvalidFontInfo(k) => {
                                if kept {
                                    format!("refused:{}", kind(&k))
                                } else {
                                    format!("refused-wiped:{}", kind(&k))
                                }
                            }
                            norad::error::FontWriteError::CustomFile { name, .. } if name == "fontinfo.plist" => {
                                format!("late:{}", if kept { "kept" } else { "wiped" })
                            }
                            _ => "other".into(),
                        }
                    }
                }
            }
        }
    };
    let s = save_via(0);
    let so = save_via(1);
    let sq = save_via(2);
    // load
    std::fs::write(ctx.load_dir.join("fontinfo.plist"), raw.plist()).unwrap();
    let l = match guarded(|| Font::load(&ctx.load_dir)) {
        Err(_) => "panic".to_string(),
        Ok(Ok(f)) => match &mem {
            None => "loaded:nomem".into(),
            Some(fi) => {
                if f.font_info == *fi {
                    "loaded:same".into()
                } else {
                    "loaded:diff".into()
                }
            }
        },
        Ok(Err(e)) => match e {
            norad::error::FontLoadError::FontInfo(b) => match b {
                norad::error::FontInfoLoadError::ParsePlist(_) => "parse".into(),
                norad::error::FontInfoLoadError::InvalidData(k) => format!("invalid:{}", kind(&k)),
                _ => "other".into(),
            },
            _ => "other".into(),
        },
    };
    let classify = |r: Result<Result<Font, norad::error::FontLoadError>, String>| -> String {
        match r {
            Err(_) => "panic".to_string(),
            Ok(Ok(_)) => "loaded".to_string(),
            Ok(Err(e)) => match e {
                norad::error::FontLoadError::FontInfo(b) => match b {
                    norad::error::FontInfoLoadError::ParsePlist(_) => "parse".into(),
                    norad::error::FontInfoLoadError::FontInfoUpconversion(k) => format!("invalid:{}", kind(&k)),
                    _ => "other".into(),
                },
                norad::error::FontLoadError::FontInfoV1Upconversion(k) => format!("invalid:{}", kind(&k)),
                norad::error::FontLoadError::ParsePlist { .. } => "parse".into(),
                _ => "other".into(),
            },
        }
    };
    let u2 = if raw.v2_expressible() {
        std::fs::write(ctx.v2_dir.join("fontinfo.plist"), raw.plist()).unwrap();
        classify(guarded(|| Font::load(&ctx.v2_dir)))
    } else {
        "na".to_string()
    };
    let u1 = if raw.hint_expressible() {
        std::fs::write(ctx.v1_dir.join("lib.plist"), raw.hint_lib()).unwrap();
        classify(guarded(|| Font::load(&ctx.v1_dir)))
    } else {
        "na".to_string()
    };
    format!("v={} s={} so={} sq={} l={} u2={} u1={}", v, s, so, sq, l, u2, u1)
}

fn emit(out: &mut dyn Write, ctx: &Ctx, raw: &Raw) {
    let obs = observe(ctx, raw);
    writeln!(out, "C13 {} => {}", raw.tokens(), obs).unwrap();
}

pub fn replay(toks: &[&str]) -> String {
    let ctx = Ctx::new();
    let get = |k: &str| toks.iter().find_map(|t| t.strip_prefix(k).map(|v| v.to_string()));
    if let Some(route) = get("route=") {
        let files = get("files=").unwrap_or_else(|| "-".into());
        let req = get("req=").unwrap_or_else(|| "load".into());
        let dir = scratch_root().join("c13").join("glue.ufo");
        glue_tree(&dir, &route, &files);
        return glue_observe(&dir, &route, &files, &req, &Raw::parse(toks));
    }
    observe(&ctx, &Raw::parse(toks))
}

// ---------------------------------------------------------------------------------------------
// the "glue" stream: every route by which font info reaches a loaded Font (fontinfo.plist of format 3 / 2,
// the robofab hint data of a format-1 lib.plist) crossed with the other optional files of a UFO and with the
// load entry points / data requests.
// line: `C13 route=<v3|v2|v1> files=<fea0,fea,grp,krn,lib,rfeat,linfo,data,img,glyph|-> req=<load|all|..> <raw tokens>
//        => g=<loaded:valid | loaded:invalid | rejected:<class> | panic>`

pub const GLUE_FILES: [&str; 10] = ["fea0", "fea", "grp", "krn", "lib", "rfeat", "linfo", "data", "img", "glyph"];

fn glue_lib_extra(files: &str) -> String {
    let has = |f: &str| files.split(',').any(|x| x == f);
    let mut s = String::new();
    if has("lib") {
        s.push_str("<key>com.example.keep</key><integer>7</integer>");
    }
    if has("rfeat") {
        s.push_str("<key>org.robofab.opentype.classes</key><string>@c = [a];\n</string>");
        s.push_str("<key>org.robofab.opentype.features</key><dict><key>kern</key><string>feature kern { pos a a -1; } kern;\n</string></dict>");
    }
    s
}

/// everything of the tree except the file(s) that carry the font info
pub fn glue_tree(dir: &Path, route: &str, files: &str) {
    let fmt = match route {
        "v3" => 3,
        "v2" => 2,
        _ => 1,
    };
    base_tree(dir, fmt);
    let has = |f: &str| files.split(',').any(|x| x == f);
    if has("fea0") {
        std::fs::write(dir.join("features.fea"), "").unwrap();
    }
    if has("fea") {
        std::fs::write(dir.join("features.fea"), "# an explicit feature file\nlanguagesystem DFLT dflt;\n").unwrap();
    }
    if has("grp") {
        let key = if fmt == 3 { "public.kern1.x" } else { "@MMK_L_x" };
        std::fs::write(
            dir.join("groups.plist"),
            format!("{}<dict><key>{}</key><array><string>a</string></array><key>other</key><array><string>a</string></array></dict></plist>\n", PLIST_HEAD, key),
        )
        .unwrap();
    }
    if has("krn") {
        std::fs::write(
            dir.join("kerning.plist"),
            format!("{}<dict><key>a</key><dict><key>b</key><integer>-10</integer></dict></dict></plist>\n", PLIST_HEAD),
        )
        .unwrap();
    }
    if fmt != 1 && (has("lib") || has("rfeat")) {
        std::fs::write(dir.join("lib.plist"), format!("{}<dict>{}</dict></plist>\n", PLIST_HEAD, glue_lib_extra(files))).unwrap();
    }
    if has("linfo") {
        std::fs::write(
            dir.join("glyphs").join("layerinfo.plist"),
            format!("{}<dict><key>color</key><string>1,0,0,1</string></dict></plist>\n", PLIST_HEAD),
        )
        .unwrap();
    }
    if has("data") {
        std::fs::create_dir_all(dir.join("data").join("sub")).unwrap();
        std::fs::write(dir.join("data").join("sub").join("a.txt"), b"data").unwrap();
    }
    if has("img") {
        std::fs::create_dir_all(dir.join("images")).unwrap();
        std::fs::write(dir.join("images").join("i.png"), [0x89u8, 0x50, 0x4e, 0x47, 0x0d, 0x0a, 0x1a, 0x0a]).unwrap();
    }
    if has("glyph") {
        std::fs::write(
            dir.join("glyphs").join("contents.plist"),
            format!("{}<dict><key>a</key><string>a.glif</string></dict></plist>\n", PLIST_HEAD),
        )
        .unwrap();
        std::fs::write(
            dir.join("glyphs").join("a.glif"),
            "<?xml version=\"1.0\" encoding=\"UTF-8\"?>\n<glyph name=\"a\" format=\"1\">\n<advance width=\"500\"/>\n</glyph>\n",
        )
        .unwrap();
    }
}

pub fn glue_observe(dir: &Path, route: &str, files: &str, req: &str, raw: &Raw) -> String {
    match route {
        "v3" | "v2" => std::fs::write(dir.join("fontinfo.plist"), raw.plist()).unwrap(),
        _ => {
            std::fs::write(dir.join("fontinfo.plist"), format!("{}<dict><key>familyName</key><string>F</string></dict></plist>\n", PLIST_HEAD)).unwrap();
            std::fs::write(dir.join("lib.plist"), raw.hint_lib_with(&glue_lib_extra(files))).unwrap();
        }
    }
    let request = |name: &str| -> norad::DataRequest<'static> {
        match name {
            "all" => norad::DataRequest::default(),
            "nolib" => norad::DataRequest::default().lib(false),
            "nofeat" => norad::DataRequest::default().features(false),
            "none" => norad::DataRequest::none(),
            "onlylib" => norad::DataRequest::none().lib(true),
            "onlyfeat" => norad::DataRequest::none().features(true),
            "nolayers" => norad::DataRequest::default().layers(false),
            "nokern" => norad::DataRequest::default().groups(false).kerning(false),
            other => panic!("request {}", other),
        }
    };
    let res = if req == "load" { guarded(|| Font::load(dir)) } else { guarded(|| Font::load_requested_data(dir, request(req))) };
    let g = match res {
        Err(_) => "panic".to_string(),
        Ok(Ok(font)) => match guarded(|| font.font_info.validate()) {
            Ok(Ok(())) => "loaded:valid".to_string(),
            Ok(Err(k)) => format!("loaded:invalid:{}", kind(&k)),
            Err(_) => "loaded:validate-panics".to_string(),
        },
        Ok(Err(e)) => match e {
            norad::error::FontLoadError::FontInfo(b) => match b {
                norad::error::FontInfoLoadError::ParsePlist(_) => "rejected:parse".into(),
                norad::error::FontInfoLoadError::InvalidData(k) => format!("rejected:invalid:{}", kind(&k)),
                norad::error::FontInfoLoadError::FontInfoUpconversion(k) => format!("rejected:invalid:{}", kind(&k)),
                _ => "rejected:other-fontinfo".into(),
            },
            norad::error::FontLoadError::FontInfoV1Upconversion(k) => format!("rejected:invalid:{}", kind(&k)),
            other => format!("unrelated-error:{}", format!("{:?}", other).chars().take_while(|c| c.is_ascii_alphanumeric()).collect::<String>()),
        },
    };
    format!("g={}", g)
}

fn glue_values(route: &str) -> Vec<Raw> {
    let mut v: Vec<Raw> = Vec::new();
    let lens = |i: usize, n: usize| {
        let mut r = Raw::default();
        r.lens[i] = Some(n);
        r
    };
    // the six lists: just inside and just outside each rule (all three routes can carry them)
    for (i, n) in [(0, 14), (0, 15), (0, 16), (0, 13), (1, 10), (1, 11), (1, 12), (2, 16), (2, 1), (3, 12), (3, 9), (4, 12), (4, 13), (5, 12), (5, 13)] {
        v.push(lens(i, n));
    }
    let mut all_ok = Raw::default();
    all_ok.lens = [Some(14), Some(10), Some(14), Some(10), Some(12), Some(12)];
    v.push(all_ok.clone());
    let mut last_bad = all_ok.clone();
    last_bad.lens[5] = Some(13);
    v.push(last_bad);
    if route != "v1" {
        v.push(Raw { d: Some("2020/13/15 12:30:30".into()), ..Default::default() });
        v.push(Raw { d: Some("2020/00/15 12:30:30".into()), ..Default::default() });
        v.push(Raw { d: Some(GOOD_DATE.into()), ..Default::default() });
        v.push(Raw { sel: Some(vec![1, 5]), ..Default::default() });
        v.push(Raw { sel: Some(vec![7, 8]), ..Default::default() });
        v.push(Raw { fc: Some(vec![15, 0]), ..Default::default() });
        v.push(Raw { fc: Some(vec![14, 15]), ..Default::default() });
    }
    if route == "v3" {
        v.push(Raw { g: Some(vec![2, 1]), ..Default::default() });
        v.push(Raw { g: Some(vec![1, 2]), ..Default::default() });
        v.push(Raw { gl: Some(vec![format!("v#{}", hexs("k")), format!("h#{}", hexs("k"))]), ..Default::default() });
        v.push(Raw { gl: Some(vec![format!("a{}", f64bits(400.0))]), ..Default::default() });
        v.push(Raw { gl: Some(vec![format!("a{}#{}", f64bits(360.0), hexs("k"))]), ..Default::default() });
        v.push(Raw { we: Some(vec![]), ..Default::default() });
        v.push(Raw { we: Some(vec![vec![(1, 1)]]), ..Default::default() });
        let mut wc = Raw::default();
        wc.wn[0] = Some(0);
        v.push(wc);
    }
    v
}

pub fn gen_glue(thorough: bool, rng: &mut Rng, out: &mut dyn Write) {
    let dir = scratch_root().join("c13").join("glue.ufo");
    let reqs_all = ["load", "all", "none", "nofeat", "nolib", "onlylib", "onlyfeat", "nolayers", "nokern"];
    for route in ["v3", "v2", "v1"] {
        let usable: Vec<&str> = GLUE_FILES.iter().copied().filter(|f| *f != "rfeat" || route == "v1").collect();
        // file sets: none, each file alone, everything (with the empty and with the non-empty feature file), random subsets
        let mut sets: Vec<String> = vec!["-".to_string()];
        for f in &usable {
            sets.push(f.to_string());
        }
        sets.push(usable.iter().copied().filter(|f| *f != "fea0").collect::<Vec<_>>().join(","));
        sets.push(usable.iter().copied().filter(|f| *f != "fea").collect::<Vec<_>>().join(","));
        for _ in 0..(if thorough { 12 } else { 3 }) {
            let pick: Vec<&str> = usable.iter().copied().filter(|f| *f != "fea0" && rng.chance(1, 2)).collect();
            sets.push(if pick.is_empty() { "-".to_string() } else { pick.join(",") });
        }
        let values = glue_values(route);
        for files in &sets {
            glue_tree(&dir, route, files);
            for (vi, raw) in values.iter().enumerate() {
                // every entry point for the first file sets, a rotating pair otherwise (all of them in the thorough tier)
                let reqs: Vec<&str> = if thorough || files.len() <= 5 {
                    reqs_all.to_vec()
                } else {
                    vec!["load", reqs_all[1 + (vi % (reqs_all.len() - 1))]]
                };
                for req in reqs {
                    let obs = glue_observe(&dir, route, files, req, raw);
                    writeln!(out, "C13 route={} files={} req={} {} => {}", route, files, req, raw.tokens(), obs).unwrap();
                }
            }
        }
    }
}

fn bits(x: f64) -> String {
    f64bits(x)
}

pub const GOOD_DATE: &str = "2020/06/15 12:30:30";

fn date_cases() -> Vec<String> {
    let mut v: Vec<String> = Vec::new();
    let base: Vec<char> = GOOD_DATE.chars().collect();
    v.push(GOOD_DATE.into());
    // every field at min-1 (wrapped to 99), min, max, max+1 and a few inside
    let fields: [(usize, usize, &[u32]); 6] = [
        (0, 4, &[0, 1, 1999, 9999]),
        (5, 2, &[0, 1, 2, 9, 10, 11, 12, 13, 19, 20, 99]),
        (8, 2, &[0, 1, 2, 9, 10, 28, 29, 30, 31, 32, 39, 40, 99]),
        (11, 2, &[0, 1, 9, 10, 19, 20, 22, 23, 24, 25, 29, 30, 99]),
        (14, 2, &[0, 1, 9, 10, 58, 59, 60, 61, 69, 70, 99]),
        (17, 2, &[0, 1, 9, 10, 58, 59, 60, 61, 69, 70, 99]),
    ];
    for (pos, w, vals) in fields.iter() {
        for val in vals.iter() {
            let mut c = base.clone();
            let s = format!("{:0width$}", val, width = *w);
            for (k, ch) in s.chars().enumerate() {
                c[pos + k] = ch;
            }
            v.push(c.iter().collect());
        }
    }
    // all two-digit values of every two-digit field (exhaustive 0..99)
    for pos in [5usize, 8, 11, 14, 17] {
        for val in 0..100u32 {
            let mut c = base.clone();
            let s = format!("{:02}", val);
            for (k, ch) in s.chars().enumerate() {
                c[pos + k] = ch;
            }
            v.push(c.iter().collect());
        }
    }
    // every position replaced by every interesting character
    let subs = [' ', '/', ':', '0', '9', '+', '-', 'a', '.', '\u{e9}', '\u{663}', '\u{ff11}', '\u{1d7cf}'];
    for p in 0..19 {
        for s in subs.iter() {
            let mut c = base.clone();
            c[p] = *s;
            v.push(c.iter().collect());
        }
    }
    // lengths 0, 18, 20 and 19 bytes with multi-byte characters so that a slice bound falls inside one
    v.push(String::new());
    v.push(GOOD_DATE[..18].into());
    v.push(format!("{}0", GOOD_DATE));
    v.push(format!(" {}", &GOOD_DATE[..18]));
    for p in 0..18 {
        // delete one character and put a 2-byte character at p: 19 bytes, 18 characters
        let mut c: Vec<char> = base.clone();
        c.remove(if p < 18 { p + 1 } else { p });
        c[p] = '\u{e9}';
        v.push(c.iter().collect());
    }
    for p in 0..17 {
        // a 3-byte character replacing three
        let mut c: Vec<char> = base.clone();
        c.remove(p + 1);
        c.remove(p + 1);
        c[p] = '\u{20ac}';
        v.push(c.iter().collect());
    }
    v.push("\u{1d7cf}\u{1d7cf}\u{1d7cf}\u{1d7cf}/06".into()); // 19 bytes, 7 characters
    v.push("YYYY/MM/DD HH:MM:SS".into());
    v.push("2020-06-15 12:30:30".into());
    v.push("2020/06/15T12:30:30".into());
    v.push("2020/6/15  12:30:30".into());
    v.push("+020/06/15 12:30:30".into());
    v.push("2020/+6/15 12:30:30".into());
    v.push("2020/06/15 12:30:+3".into());
    v.push("2020/02/31 12:30:30".into()); // not demanded by the statement: accepted
    v
}

fn angle_values() -> Vec<f64> {
    vec![
        0.0,
        -0.0,
        f64::from_bits(1),
        -f64::from_bits(1),
        1.0,
        90.0,
        180.5,
        359.999,
        360.0,
        f64::from_bits(360.0f64.to_bits() - 1),
        f64::from_bits(360.0f64.to_bits() + 1),
        361.0,
        400.0,
        720.0,
        -1.0,
        -1e-300,
        -360.0,
        1e300,
        f64::INFINITY,
        f64::NEG_INFINITY,
        f64::NAN,
    ]
}

fn ext_shapes() -> Vec<Vec<Vec<(usize, usize)>>> {
    vec![
        vec![],
        vec![vec![]],
        vec![vec![(0, 0)]],
        vec![vec![(1, 0)]],
        vec![vec![(0, 1)]],
        vec![vec![(1, 1)]],
        vec![vec![(2, 3)]],
        vec![vec![(1, 1)], vec![]],
        vec![vec![], vec![(1, 1)]],
        vec![vec![(1, 1), (0, 1)]],
        vec![vec![(1, 1), (1, 0)]],
        vec![vec![(0, 1), (1, 1)]],
        vec![vec![(1, 1), (1, 1)]],
        vec![vec![(1, 1)], vec![(1, 1), (1, 0)]],
        vec![vec![(1, 1)], vec![(1, 1)]],
        vec![vec![(1, 1)], vec![(1, 1)], vec![(0, 0)]],
        vec![vec![(1, 1)], vec![(2, 2), (1, 1), (1, 1)]],
    ]
}

fn hexid(s: &str) -> String {
    hexs(s)
}

pub fn gen(tier: &str, seed: u64, out: &mut dyn Write) {
    let ctx = Ctx::new();
    let mut rng = Rng::new(seed);
    let thorough = tier == "thorough";

    emit(out, &ctx, &Raw::default());

    // --- dates
    let dates = date_cases();
    for d in &dates {
        emit(out, &ctx, &Raw { d: Some(d.clone()), ..Default::default() });
    }

    // --- the six PostScript lists: every length 0..17, alone
    for i in 0..6 {
        for n in 0..=17usize {
            let mut r = Raw::default();
            r.lens[i] = Some(n);
            emit(out, &ctx, &r);
        }
    }

    // --- selection bits: all 256 subsets of bits 0..7 (order varied), plus higher bits, duplicates, ill-typed
    for mask in 0..256u32 {
        let mut bitsv: Vec<i64> = (0..8).filter(|b| mask >> b & 1 == 1).collect();
        if mask % 3 == 1 {
            bitsv.reverse();
        }
        if mask % 5 == 2 {
            bitsv.push(8 + (mask as i64 % 8));
        }
        emit(out, &ctx, &Raw { sel: Some(bitsv), ..Default::default() });
    }
    for v in [vec![7, 7], vec![5, 5], vec![15], vec![255], vec![256], vec![-1], vec![1, 2, 300], vec![16, 32, 64], vec![50, 60]] {
        emit(out, &ctx, &Raw { sel: Some(v), ..Default::default() });
    }

    // --- family class: 0..16 x 0..17, plus ill-typed
    for c in 0..=16i64 {
        for s in 0..=17i64 {
            emit(out, &ctx, &Raw { fc: Some(vec![c, s]), ..Default::default() });
        }
    }
    for v in [vec![], vec![1], vec![1, 2, 3], vec![255, 0], vec![0, 255], vec![256, 0], vec![0, 256], vec![-1, 0], vec![0, -1], vec![14, 15, 0]] {
        emit(out, &ctx, &Raw { fc: Some(v), ..Default::default() });
    }

    // --- gasp: all lists of length 0..4 over {0, 1, 2, 65535}, plus the ends of u32
    let ppems = [0i64, 1, 2, 65535];
    for len in 0..=4usize {
        let total = ppems.len().pow(len as u32);
        for k in 0..total {
            let mut kk = k;
            let mut v = Vec::new();
            for _ in 0..len {
                v.push(ppems[kk % ppems.len()]);
                kk /= ppems.len();
            }
            emit(out, &ctx, &Raw { g: Some(v), ..Default::default() });
        }
    }
    for v in [
        vec![4294967295],
        vec![4294967294, 4294967295],
        vec![4294967295, 4294967294],
        vec![4294967296],
        vec![-1],
        vec![1, -1],
        vec![1, 2, 3, 4, 5, 6, 7, 8],
        vec![1, 2, 3, 4, 5, 6, 8, 7],
        vec![2, 1, 3, 4, 5, 6, 7, 8],
        vec![1, 1, 1, 1, 1, 0],
    ] {
        emit(out, &ctx, &Raw { g: Some(v), ..Default::default() });
    }

    // --- guidelines: angles alone, in second position, and identifier collisions
    for a in angle_values() {
        emit(out, &ctx, &Raw { gl: Some(vec![format!("a{}", bits(a))]), ..Default::default() });
        emit(out, &ctx, &Raw { gl: Some(vec!["v".into(), format!("a{}#{}", bits(a), hexid("g1"))]), ..Default::default() });
        emit(
            out,
            &ctx,
            &Raw { gl: Some(vec![format!("h#{}", hexid("k")), format!("a{}", bits(a)), format!("v#{}", hexid("k"))]), ..Default::default() },
        );
        emit(out, &ctx, &Raw { gl: Some(vec![format!("xa{}", bits(a))]), ..Default::default() });
        emit(out, &ctx, &Raw { gl: Some(vec![format!("ya{}", bits(a))]), ..Default::default() });
    }
    let ids: [Option<&str>; 4] = [None, Some("a"), Some("b"), Some("A")];
    let shapes = ["v", "h"];
    for len in 0..=3usize {
        let total = ids.len().pow(len as u32);
        for k in 0..total {
            let mut kk = k;
            let mut v = Vec::new();
            for j in 0..len {
                let id = ids[kk % ids.len()];
                kk /= ids.len();
                let sh = if (k + j) % 5 == 4 { format!("a{}", bits(45.0)) } else { shapes[(k + j) % 2].to_string() };
                v.push(match id {
                    Some(i) => format!("{}#{}", sh, hexid(i)),
                    None => sh,
                });
            }
            emit(out, &ctx, &Raw { gl: Some(v), ..Default::default() });
        }
    }
    // empty, blank, 100- and 101-character identifiers, alone and duplicated (the accessor and the serialised
    // form must agree on what an identifier is)
    let id100 = "i".repeat(100);
    let id101 = "i".repeat(101);
    let special: [&str; 5] = ["", " ", "  ", &id100, &id101];
    for a in special.iter() {
        emit(out, &ctx, &Raw { gl: Some(vec![format!("v#{}", hexid(a))]), ..Default::default() });
        emit(out, &ctx, &Raw { gl: Some(vec![format!("v#{}", hexid(a)), format!("h#{}", hexid(a))]), ..Default::default() });
        emit(out, &ctx, &Raw { gl: Some(vec![format!("v#{}", hexid(a)), "h".into(), format!("a{}#{}", bits(45.0), hexid(a))]), ..Default::default() });
        for b in special.iter() {
            if a != b {
                emit(out, &ctx, &Raw { gl: Some(vec![format!("v#{}", hexid(a)), format!("h#{}", hexid(b))]), ..Default::default() });
            }
        }
        emit(out, &ctx, &Raw { gl: Some(vec![format!("v#{}", hexid(a)), format!("h#{}", hexid("a")), "v".into()]), ..Default::default() });
    }
    for g in ["n", "xy", "n#6162"] {
        emit(out, &ctx, &Raw { gl: Some(vec![g.to_string()]), ..Default::default() });
        emit(out, &ctx, &Raw { gl: Some(vec!["v".into(), g.to_string()]), ..Default::default() });
    }
    // an identifier that is not a valid identifier (control character): only through load
    emit(out, &ctx, &Raw { gl: Some(vec![format!("v#{}", hex(b"a\tb"))]), ..Default::default() });

    // --- WOFF emptiness at every nesting level
    for we in ext_shapes() {
        emit(out, &ctx, &Raw { we: Some(we), ..Default::default() });
    }
    for i in 0..5 {
        for n in 0..=2usize {
            let mut r = Raw::default();
            r.wn[i] = Some(n);
            emit(out, &ctx, &r);
        }
    }

    // --- type-only fields
    for p in [
        vec![0; 9],
        vec![0; 10],
        vec![0; 11],
        vec![],
        vec![2, 2, 2, 2, 6, 5, 11, 4, 2, 5],
        vec![2, 2, 2, 2, 6, 5, 11, 4, 2, -5],
        vec![4294967295, 0, 0, 0, 0, 0, 0, 0, 0, 0],
        vec![4294967296, 0, 0, 0, 0, 0, 0, 0, 0, 0],
    ] {
        emit(out, &ctx, &Raw { pan: Some(p), ..Default::default() });
    }
    for w in -1..=11i64 {
        emit(out, &ctx, &Raw { wcl: Some(w), ..Default::default() });
    }
    for c in [-1i64, 0, 1, 2, 19, 20, 21, 255, 256] {
        emit(out, &ctx, &Raw { cs: Some(c), ..Default::default() });
    }
    for s in ["regular", "italic", "bold", "bold italic", "Regular", "bold  italic", "", "bolditalic", "italic bold", " regular"] {
        emit(out, &ctx, &Raw { sm: Some(s.to_string()), ..Default::default() });
    }

    // --- routes x other files x entry points
    gen_glue(thorough, &mut rng, out);

    // --- combinations of the attributes that also exist in formats 1 / 2 (reach the upconversion paths)
    let n_legacy = if thorough { 4000 } else { 500 };
    let maxes = [14usize, 10, 14, 10, 12, 12];
    for k in 0..n_legacy {
        let mut r = Raw::default();
        let lists_only = k % 2 == 0;
        let mut one_bad = rng.chance(1, 2);
        for i in 0..6 {
            if rng.chance(1, 2) {
                let n = if one_bad && rng.chance(1, 3) {
                    one_bad = false;
                    if i < 4 { *rng.pick(&[maxes[i] + 1, maxes[i] + 2, maxes[i] - 1, 1, 3, 7]) } else { maxes[i] + 1 + rng.below(2) }
                } else if i < 4 {
                    2 * rng.below(maxes[i] / 2 + 1)
                } else {
                    rng.below(maxes[i] + 1)
                };
                r.lens[i] = Some(n);
            }
        }
        if !lists_only {
            if rng.chance(1, 2) {
                r.d = Some(if one_bad && rng.chance(1, 3) { one_bad = false; rng.pick(&dates).clone() } else { GOOD_DATE.to_string() });
            }
            if rng.chance(1, 2) {
                let mut v: Vec<i64> = vec![1, 2, 7];
                if one_bad && rng.chance(1, 3) {
                    one_bad = false;
                    v.push(*rng.pick(&[0i64, 5, 6]));
                }
                r.sel = Some(v);
            }
            if rng.chance(1, 2) {
                r.fc = Some(if one_bad && rng.chance(1, 2) { vec![15, 3] } else { vec![rng.range(0, 14), rng.range(0, 15)] });
            }
        }
        emit(out, &ctx, &r);
    }

    // --- combinations: several attributes, each valid or at a violating boundary
    let n_random = if thorough { 30000 } else { 2500 };
    let angs = angle_values();
    for _ in 0..n_random {
        let mut r = Raw::default();
        let viol = rng.chance(1, 2); // half of the cases are fully valid
        let mut budget = if viol { 1 + rng.below(2) } else { 0 };
        let mut bad = |rng: &mut Rng| -> bool {
            if budget > 0 && rng.chance(1, 4) {
                budget -= 1;
                true
            } else {
                false
            }
        };
        if rng.chance(1, 2) {
            r.d = Some(if bad(&mut rng) { rng.pick(&dates).clone() } else { GOOD_DATE.to_string() });
        }
        if rng.chance(1, 2) {
            let mut v: Vec<i64> = (0..rng.below(5)).map(|_| rng.range(0, 40)).collect();
            if !bad(&mut rng) {
                v.sort();
            }
            r.g = Some(v);
        }
        if rng.chance(1, 2) {
            let n = rng.below(4);
            let mut v = Vec::new();
            for j in 0..n {
                let sh = match rng.below(3) {
                    0 => "v".to_string(),
                    1 => "h".to_string(),
                    _ => {
                        if bad(&mut rng) {
                            format!("a{}", bits(*rng.pick(&angs)))
                        } else {
                            format!("a{}", bits(rng.range(0, 360) as f64))
                        }
                    }
                };
                let id = if rng.chance(1, 2) {
                    if bad(&mut rng) {
                        Some("dup".to_string())
                    } else {
                        Some(format!("id{}", j))
                    }
                } else {
                    None
                };
                v.push(match id {
                    Some(i) => format!("{}#{}", sh, hexid(&i)),
                    None => sh,
                });
            }
            r.gl = Some(v);
        }
        if rng.chance(1, 2) {
            let allowed = [1i64, 2, 3, 4, 7, 8, 9, 15];
            let mut v: Vec<i64> = (0..rng.below(4)).map(|_| *rng.pick(&allowed)).collect();
            if bad(&mut rng) {
                v.push(*rng.pick(&[0i64, 5, 6]));
            }
            r.sel = Some(v);
        }
        if rng.chance(1, 2) {
            r.fc = Some(if bad(&mut rng) {
                if rng.chance(1, 2) {
                    vec![15, rng.range(0, 15)]
                } else {
                    vec![rng.range(0, 14), 16]
                }
            } else {
                vec![rng.range(0, 14), rng.range(0, 15)]
            });
        }
        let maxes = [14usize, 10, 14, 10, 12, 12];
        for i in 0..6 {
            if rng.chance(1, 3) {
                let n = if bad(&mut rng) {
                    if i < 4 {
                        *rng.pick(&[maxes[i] + 1, maxes[i] - 1, maxes[i] + 2, 1, 3])
                    } else {
                        maxes[i] + 1 + rng.below(3)
                    }
                } else if i < 4 {
                    2 * rng.below(maxes[i] / 2 + 1)
                } else {
                    rng.below(maxes[i] + 1)
                };
                r.lens[i] = Some(n);
            }
        }
        if rng.chance(1, 4) {
            let shapes = ext_shapes();
            r.we = Some(if bad(&mut rng) { rng.pick(&shapes).clone() } else { vec![vec![(1, 1)], vec![(2, 1), (1, 2)]] });
        }
        for i in 0..5 {
            if rng.chance(1, 5) {
                r.wn[i] = Some(if bad(&mut rng) { 0 } else { 1 + rng.below(2) });
            }
        }
        emit(out, &ctx, &r);
    }
}
