//! C12: glif structure rules.  Generated documents through `Glyph::parse_raw`; the same bytes are
//! tokenised with quick-xml 0.37 under norad's reader configuration (`trim_text(true)`) and the
//! event list travels to the model.
//!
//! line: `C12 <hex document> <ev>* | <numtable>* => ok <glyph tokens> | err <kind> | panic`
//!   the document (hex) is the replayable input; events and number table are derived from it.
//! event tokens: `D` decl, `C` comment, `O` other (PI, DocType), `A` cdata, `X` reader error,
//!   `T:<hex>` text (`T!` = unescape failed), `S:<name>:<attrs>` start, `E:<name>:<attrs>` empty,
//!   `Z:<name>` end, `L:<attrs>:<plist verdict>` start of an element named `lib` with the plist crate's
//!   verdict on the slice norad hands to it (`bad`, `nd`, or the dictionary).
//!   attrs = `k=v,k=v` (hex), `!` = quick-xml attribute error.
//! number table: `<hex string>=<f64 bits>` for every attribute value (and comma-separated piece of
//!   one) that Rust's `str::parse::<f64>` accepts.
use crate::common::*;
use crate::rng::Rng;
use norad::{Glyph, Line, PointType};
use quick_xml::events::{BytesStart, Event};
use quick_xml::Reader;
use std::collections::BTreeMap;
use std::io::Write;

// ------------------------------------------------------------------ canonical dumps

pub fn pv_tok(v: &plist::Value) -> String {
    match v {
        plist::Value::String(s) => format!("s{}", hexs(s)),
        plist::Value::Integer(i) => match i.as_signed() {
            Some(x) => format!("i{}", x),
            None => format!("i{}", i.as_unsigned().unwrap()),
        },
        plist::Value::Real(r) => format!("r{}", f64bits(*r)),
        plist::Value::Boolean(b) => format!("b{}", if *b { 1 } else { 0 }),
        plist::Value::Data(d) => format!("x{}", hex(d)),
        plist::Value::Date(d) => format!("t{}", hexs(&d.to_xml_format())),
        plist::Value::Uid(u) => format!("u{}", u.get()),
        plist::Value::Array(a) => format!("[{}]", a.iter().map(pv_tok).collect::<Vec<_>>().join(",")),
        plist::Value::Dictionary(d) => dict_tok(d),
        _ => "unknown".to_string(),
    }
}

pub fn dict_tok(d: &plist::Dictionary) -> String {
    let mut m: Vec<(String, String)> = d.iter().map(|(k, v)| (k.clone(), pv_tok(v))).collect();
    m.sort();
    format!("{{{}}}", m.iter().map(|(k, v)| format!("{}={}", hexs(k), v)).collect::<Vec<_>>().join(","))
}

fn opt_s(s: Option<&str>) -> String {
    match s {
        Some(s) => hexs(s),
        None => "~".to_string(),
    }
}
fn opt_lib(l: Option<&plist::Dictionary>) -> String {
    match l {
        Some(d) => dict_tok(d),
        None => "~".to_string(),
    }
}
fn col_tok(c: Option<&norad::Color>) -> String {
    match c {
        Some(c) => {
            let (r, g, b, a) = c.channels();
            format!("{},{},{},{}", f64bits(r), f64bits(g), f64bits(b), f64bits(a))
        }
        None => "~".to_string(),
    }
}
fn tr_tok(t: &norad::AffineTransform) -> String {
    [t.x_scale, t.xy_scale, t.yx_scale, t.y_scale, t.x_offset, t.y_offset]
        .iter()
        .map(|v| f64bits(*v))
        .collect::<Vec<_>>()
        .join(",")
}

/// the glyph through public fields and getters only
pub fn glyph_tokens(g: &Glyph) -> String {
    let mut t: Vec<String> = Vec::new();
    t.push(format!("N:{}", hexs(g.name().as_str())));
    t.push(format!("W:{}", f64bits(g.width)));
    t.push(format!("H:{}", f64bits(g.height)));
    t.push(format!("U:{}", g.codepoints.iter().map(|c| (c as u32).to_string()).collect::<Vec<_>>().join(",")));
    t.push(format!("NOTE:{}", opt_s(g.note.as_deref())));
    match &g.image {
        None => t.push("IMG:~".to_string()),
        Some(i) => t.push(format!(
            "IMG:{}:{}:{}",
            hexs(&i.file_name().to_string_lossy()),
            col_tok(i.color.as_ref()),
            tr_tok(&i.transform)
        )),
    }
    for a in &g.anchors {
        t.push(format!(
            "A:{}:{}:{}:{}:{}:{}",
            f64bits(a.x),
            f64bits(a.y),
            opt_s(a.name.as_ref().map(|n| n.as_str())),
            col_tok(a.color.as_ref()),
            opt_s(a.identifier().map(|i| i.as_str())),
            opt_lib(a.lib())
        ));
    }
    for gl in &g.guidelines {
        let (k, x, y, d) = match gl.line {
            Line::Vertical(x) => ("v", f64bits(x), "~".to_string(), "~".to_string()),
            Line::Horizontal(y) => ("h", "~".to_string(), f64bits(y), "~".to_string()),
            Line::Angle { x, y, degrees } => ("a", f64bits(x), f64bits(y), f64bits(degrees)),
        };
        t.push(format!(
            "G:{}:{}:{}:{}:{}:{}:{}:{}",
            k,
            x,
            y,
            d,
            opt_s(gl.name.as_ref().map(|n| n.as_str())),
            col_tok(gl.color.as_ref()),
            opt_s(gl.identifier().map(|i| i.as_str())),
            opt_lib(gl.lib())
        ));
    }
    for c in &g.contours {
        t.push(format!("C:{}:{}", opt_s(c.identifier().map(|i| i.as_str())), opt_lib(c.lib())));
        for p in &c.points {
            let ty = match p.typ {
                PointType::Move => 'm',
                PointType::Line => 'l',
                PointType::OffCurve => 'o',
                PointType::Curve => 'c',
                PointType::QCurve => 'q',
            };
            t.push(format!(
                "P:{}:{}:{}:{}:{}:{}:{}",
                f64bits(p.x),
                f64bits(p.y),
                ty,
                if p.smooth { 1 } else { 0 },
                opt_s(p.name.as_ref().map(|n| n.as_str())),
                opt_s(p.identifier().map(|i| i.as_str())),
                opt_lib(p.lib())
            ));
        }
    }
    for k in &g.components {
        t.push(format!(
            "K:{}:{}:{}:{}",
            hexs(k.base.as_str()),
            tr_tok(&k.transform),
            opt_s(k.identifier().map(|i| i.as_str())),
            opt_lib(k.lib())
        ));
    }
    t.push(format!("LIB:{}", dict_tok(&g.lib)));
    t.join(" ")
}

// ------------------------------------------------------------------ tokeniser (quick-xml, norad's configuration)

fn attrs_tok(e: &BytesStart, nums: &mut BTreeMap<String, u64>) -> String {
    let mut parts = Vec::new();
    for a in e.attributes() {
        let a = match a {
            Ok(a) => a,
            Err(_) => return "!".to_string(),
        };
        let v = match a.unescape_value() {
            Ok(v) => v,
            Err(_) => return "!".to_string(),
        };
        note_num(&v, nums);
        for piece in v.split(',') {
            note_num(piece, nums);
        }
        parts.push(format!("{}={}", hex(a.key.as_ref()), hexs(&v)));
    }
    parts.join(",")
}

fn note_num(s: &str, nums: &mut BTreeMap<String, u64>) {
    if let Ok(x) = s.parse::<f64>() {
        nums.insert(s.to_string(), x.to_bits());
    }
}

/// event tokens and the number table of a document
pub fn tokenise(doc: &[u8]) -> (Vec<String>, Vec<String>) {
    let xml = doc.strip_prefix(&[0xEF, 0xBB, 0xBF][..]).unwrap_or(doc);
    let mut reader = Reader::from_reader(xml);
    reader.config_mut().trim_text(true);
    let mut buf = Vec::new();
    let mut nums = BTreeMap::new();
    // (token, position after the event, kind: 0 other, 1 start-lib, 2 end-lib)
    let mut evs: Vec<(String, usize, u8)> = Vec::new();
    loop {
        let r = reader.read_event_into(&mut buf);
        let pos = reader.buffer_position() as usize;
        match r {
            Err(_) => {
                evs.push(("X".to_string(), pos, 0));
                break;
            }
            Ok(Event::Eof) => break,
            Ok(Event::Decl(_)) => evs.push(("D".to_string(), pos, 0)),
            Ok(Event::Comment(_)) => evs.push(("C".to_string(), pos, 0)),
            Ok(Event::CData(_)) => evs.push(("A".to_string(), pos, 0)),
            Ok(Event::Text(t)) => match t.unescape() {
                Ok(s) => evs.push((format!("T:{}", hexs(&s)), pos, 0)),
                Err(_) => evs.push(("T!".to_string(), pos, 0)),
            },
            Ok(Event::Start(s)) => {
                let a = attrs_tok(&s, &mut nums);
                if s.name().as_ref() == b"lib" {
                    evs.push((format!("L:{}", a), pos, 1));
                } else {
                    evs.push((format!("S:{}:{}", hex(s.name().as_ref()), a), pos, 0));
                }
            }
            Ok(Event::Empty(s)) => {
                let a = attrs_tok(&s, &mut nums);
                evs.push((format!("E:{}:{}", hex(s.name().as_ref()), a), pos, 0));
            }
            Ok(Event::End(e)) => {
                let k = if e.name().as_ref() == b"lib" { 2 } else { 0 };
                evs.push((format!("Z:{}", hex(e.name().as_ref())), pos, k));
            }
            Ok(_) => evs.push(("O".to_string(), pos, 0)),
        }
        buf.clear();
        if evs.len() > 5000 {
            break;
        }
    }
    // plist's verdict for every Start event named lib: the slice `parse_lib` would cut
    let n = evs.len();
    let mut out = Vec::with_capacity(n);
    for i in 0..n {
        let (tok, pos, kind) = &evs[i];
        if *kind == 1 {
            let start = *pos;
            let mut end = start;
            let mut closed = false;
            for ev in evs.iter().skip(i + 1) {
                if ev.2 == 2 {
                    closed = true;
                    break;
                }
                if ev.0 == "X" {
                    break;
                }
                end = ev.1;
            }
            let verdict = if !closed || end < start || end > xml.len() {
                "bad".to_string()
            } else {
                match plist::Value::from_reader_xml(&xml[start..end]) {
                    Err(_) => "bad".to_string(),
                    Ok(v) => match v.into_dictionary() {
                        None => "nd".to_string(),
                        Some(d) => dict_tok(&d),
                    },
                }
            };
            out.push(format!("{}:{}", tok, verdict));
        } else {
            out.push(tok.clone());
        }
    }
    let table = nums.iter().map(|(k, v)| format!("{}={:016x}", hexs(k), v)).collect();
    (out, table)
}

pub fn err_class(e: &norad::error::GlifLoadError) -> String {
    match e {
        norad::error::GlifLoadError::Parse(k) => format!("{:?}", k).replace(' ', "_").replace('"', ""),
        norad::error::GlifLoadError::Xml(_) => "Xml".to_string(),
        norad::error::GlifLoadError::Io(_) => "Io".to_string(),
        other => {
            let s = format!("{:?}", other);
            let s: String = s.chars().take_while(|c| c.is_ascii_alphanumeric()).collect();
            format!("other:{}", s)
        }
    }
}

pub fn observe(doc: &[u8]) -> String {
    match guarded(|| Glyph::parse_raw(doc)) {
        Err(_) => "panic".to_string(),
        Ok(Err(e)) => format!("err {}", err_class(&e)),
        Ok(Ok(g)) => format!("ok {}", glyph_tokens(&g)),
    }
}

pub fn line_for(doc: &[u8]) -> String {
    let (evs, nums) = tokenise(doc);
    format!("C12 {} {} | {} => {}", hex(doc), evs.join(" "), nums.join(" "), observe(doc))
}

// ------------------------------------------------------------------ document trees

#[derive(Clone, Debug)]
pub enum Node {
    El(El),
    Comment(String),
    Raw(String),
}

#[derive(Clone, Copy, Debug, PartialEq)]
pub enum Style {
    Auto,
    Explicit,
    SelfClose,
}

#[derive(Clone, Debug)]
pub struct El {
    pub name: String,
    pub attrs: Vec<(String, String)>,
    pub kids: Vec<Node>,
    pub style: Style,
}

impl El {
    pub fn new(name: &str, attrs: &[(&str, &str)]) -> El {
        El {
            name: name.to_string(),
            attrs: attrs.iter().map(|(k, v)| (k.to_string(), v.to_string())).collect(),
            kids: Vec::new(),
            style: Style::Auto,
        }
    }
    fn set(&mut self, k: &str, v: &str) {
        for a in self.attrs.iter_mut() {
            if a.0 == k {
                a.1 = v.to_string();
                return;
            }
        }
        self.attrs.push((k.to_string(), v.to_string()));
    }
    fn del(&mut self, k: &str) {
        self.attrs.retain(|a| a.0 != k);
    }
    fn has(&self, k: &str) -> bool {
        self.attrs.iter().any(|a| a.0 == k)
    }
}

fn esc(s: &str) -> String {
    let mut o = String::new();
    for c in s.chars() {
        match c {
            '&' => o.push_str("&amp;"),
            '<' => o.push_str("&lt;"),
            '>' => o.push_str("&gt;"),
            '"' => o.push_str("&quot;"),
            c if (c as u32) < 0x20 => o.push_str(&format!("&#{};", c as u32)),
            c => o.push(c),
        }
    }
    o
}

fn write_node(n: &Node, depth: usize, out: &mut String) {
    let ind = "  ".repeat(depth);
    match n {
        Node::Comment(c) => out.push_str(&format!("{}<!--{}-->\n", ind, c)),
        Node::Raw(s) => {
            out.push_str(s);
        }
        Node::El(e) => {
            out.push_str(&format!("{}<{}", ind, e.name));
            for (k, v) in &e.attrs {
                out.push_str(&format!(" {}=\"{}\"", k, esc(v)));
            }
            let selfclose = match e.style {
                Style::Auto => e.kids.is_empty() && e.name != "glyph",
                Style::Explicit => false,
                Style::SelfClose => true,
            };
            if selfclose {
                out.push_str("/>\n");
            } else if e.kids.is_empty() {
                out.push_str(&format!("></{}>\n", e.name));
            } else if e.name == "note" {
                out.push('>');
                for k in &e.kids {
                    write_node(k, 0, out);
                }
                out.push_str(&format!("</{}>\n", e.name));
            } else {
                out.push_str(">\n");
                for k in &e.kids {
                    write_node(k, depth + 1, out);
                }
                out.push_str(&format!("{}</{}>\n", ind, e.name));
            }
        }
    }
}

pub fn write_doc(root: &El, decl: bool) -> String {
    let mut s = String::new();
    if decl {
        s.push_str("<?xml version=\"1.0\" encoding=\"UTF-8\"?>\n");
    }
    write_node(&Node::El(root.clone()), 0, &mut s);
    s
}

/// paths (child indices) to every element below and including the root
fn paths(root: &El) -> Vec<Vec<usize>> {
    fn walk(e: &El, cur: &mut Vec<usize>, out: &mut Vec<Vec<usize>>) {
        out.push(cur.clone());
        for (i, k) in e.kids.iter().enumerate() {
            if let Node::El(c) = k {
                cur.push(i);
                walk(c, cur, out);
                cur.pop();
            }
        }
    }
    let mut out = Vec::new();
    walk(root, &mut Vec::new(), &mut out);
    out
}

fn at<'a>(root: &'a El, p: &[usize]) -> &'a El {
    let mut e = root;
    for i in p {
        match &e.kids[*i] {
            Node::El(c) => e = c,
            _ => unreachable!(),
        }
    }
    e
}

fn at_mut<'a>(root: &'a mut El, p: &[usize]) -> &'a mut El {
    let mut e = root;
    for i in p {
        match &mut e.kids[*i] {
            Node::El(c) => e = c,
            _ => unreachable!(),
        }
    }
    e
}

fn paths_named(root: &El, names: &[&str]) -> Vec<Vec<usize>> {
    paths(root).into_iter().filter(|p| names.contains(&at(root, p).name.as_str())).collect()
}

// ------------------------------------------------------------------ legal building blocks

const NUMS: [&str; 14] = ["0", "1", "-1", "10", "250", "-37.5", "0.25", "1e3", "123456789", "-0", "0.0", "3.14159", "1000000", "512"];
const NAMES: [&str; 12] = ["top", "bottom", "a b", "x<y", "\u{e9}t\u{e9}", "q&a", "n\"q", "\u{1F600}",
    // blanks that are content: ASCII at the edges of an attribute value, Unicode White_Space that is not XML white space
    " sp ", "\u{a0}nb\u{a0}", "\u{3000}", "a\u{2003}\u{2028}b "];
const COLORS: [&str; 6] = ["1,0,0,1", "0,0.5,0,0.5", "0.123,0.456,0.789,0.159", "0,0,0,0", "1,1,1,1", "0.5,0.5,0.5,1.0"];
const IMAGES: [&str; 4] = ["img.png", "a b.png", "\u{e9}.jpg", "x"];

fn pk<'a>(rng: &mut Rng, xs: &[&'a str]) -> &'a str {
    xs[rng.below(xs.len())]
}

fn num(rng: &mut Rng) -> String {
    if rng.chance(1, 4) {
        format!("{}", rng.range(-2000, 2000))
    } else {
        pk(rng, &NUMS).to_string()
    }
}

struct Ids {
    n: usize,
}
impl Ids {
    fn fresh(&mut self, rng: &mut Rng) -> String {
        self.n += 1;
        match rng.below(4) {
            0 => format!("id{}", self.n),
            1 => format!("{} x{}", "k", self.n),
            2 => format!("~{}!", self.n),
            _ => format!("{:03}{}", self.n, "z".repeat(rng.below(3))),
        }
    }
}

fn shuffle<T>(rng: &mut Rng, v: &mut Vec<T>) {
    for i in (1..v.len()).rev() {
        let j = rng.below(i + 1);
        v.swap(i, j);
    }
}

fn transform_attrs(rng: &mut Rng, e: &mut El) {
    for k in ["xScale", "xyScale", "yxScale", "yScale", "xOffset", "yOffset"] {
        if rng.chance(1, 3) {
            e.set(k, &num(rng));
        }
    }
}

fn contour_letters(rng: &mut Rng, legal_bias: bool) -> String {
    // mostly legal material (see c11.rs); the C11 check covers the automaton exhaustively
    const LEGAL: [&str; 14] = ["", "l", "ll", "lll", "ml", "mll", "ooc", "looc", "oq", "oooq", "ooo", "mooc", "Lloc", "cC"];
    if legal_bias {
        return pk(rng, &LEGAL).to_string();
    }
    let len = rng.below(6);
    let mut s = String::new();
    for i in 0..len {
        let c = match rng.below(14) {
            0 => 'm',
            1..=3 => 'l',
            4..=8 => 'o',
            9..=11 => 'c',
            _ => 'q',
        };
        let c = if i == 0 && rng.chance(1, 3) { 'm' } else { c };
        s.push(if c != 'o' && rng.chance(1, 4) { c.to_ascii_uppercase() } else { c });
    }
    s
}

fn typ_name(c: char) -> &'static str {
    match c.to_ascii_lowercase() {
        'm' => "move",
        'l' => "line",
        'o' => "offcurve",
        'c' => "curve",
        _ => "qcurve",
    }
}

fn contour_el(rng: &mut Rng, ids: &mut Ids, v2: bool, letters: &str, idp: u32) -> El {
    let mut c = El::new("contour", &[]);
    if v2 && rng.chance(idp, 4) {
        c.set("identifier", &ids.fresh(rng));
    }
    for ch in letters.chars() {
        let mut p = El::new("point", &[]);
        p.set("x", &num(rng));
        p.set("y", &num(rng));
        if !(ch == 'o' && rng.chance(1, 2)) {
            p.set("type", typ_name(ch));
        }
        if ch.is_ascii_uppercase() {
            p.set("smooth", "yes");
        } else if rng.chance(1, 8) {
            p.set("smooth", "no");
        }
        if rng.chance(1, 4) {
            p.set("name", pk(rng, &NAMES));
        }
        if v2 && rng.chance(idp, 6) {
            p.set("identifier", &ids.fresh(rng));
        }
        shuffle(rng, &mut p.attrs);
        c.kids.push(Node::El(p));
    }
    if letters.is_empty() && rng.chance(1, 2) {
        c.style = Style::Explicit;
    }
    c
}

fn plist_value_xml(rng: &mut Rng, depth: usize) -> String {
    match rng.below(if depth > 1 { 7 } else { 9 }) {
        0 => "<string>hello</string>".to_string(),
        1 => format!("<integer>{}</integer>", rng.range(-5, 500)),
        2 => "<real>1.5</real>".to_string(),
        3 => "<true/>".to_string(),
        4 => "<false/>".to_string(),
        5 => "<data>AQID</data>".to_string(),
        6 => "<date>2020-01-02T03:04:05Z</date>".to_string(),
        7 => {
            let n = rng.below(3);
            let mut s = "<array>".to_string();
            for _ in 0..n {
                s.push_str(&plist_value_xml(rng, depth + 1));
            }
            s.push_str("</array>");
            s
        }
        _ => plist_dict_xml(rng, depth + 1, &[]),
    }
}

fn plist_dict_xml(rng: &mut Rng, depth: usize, extra: &[(String, String)]) -> String {
    let n = rng.below(3);
    let mut s = "<dict>".to_string();
    for i in 0..n {
        s.push_str(&format!("<key>k{}{}</key>", depth, i));
        s.push_str(&plist_value_xml(rng, depth));
    }
    for (k, v) in extra {
        s.push_str(&format!("<key>{}</key>{}", esc(k), v));
    }
    s.push_str("</dict>");
    s
}

fn collect_ids(root: &El) -> Vec<String> {
    let mut out = Vec::new();
    for p in paths(root) {
        let e = at(root, &p);
        if ["anchor", "guideline", "contour", "point", "component"].contains(&e.name.as_str()) {
            // an empty contour written <contour .../> is never looked at by the parser
            if let Some(a) = e.attrs.iter().find(|a| a.0 == "identifier") {
                out.push(a.1.clone());
            }
        }
    }
    out
}

/// a legal document of the given format version
pub fn legal_doc(rng: &mut Rng, v2: bool) -> El {
    let mut ids = Ids { n: 0 };
    let idp = if rng.chance(1, 2) { 3 } else { 1 };
    let mut root = El::new("glyph", &[("name", if rng.chance(1, 5) { "A.alt \u{e9}" } else { "a" }), ("format", if v2 { "2" } else { "1" })]);
    if rng.chance(1, 8) {
        root.set("formatMinor", "0");
    }
    shuffle(rng, &mut root.attrs);
    let mut items: Vec<Node> = Vec::new();
    if rng.chance(3, 4) {
        let mut a = El::new("advance", &[]);
        if rng.chance(4, 5) {
            a.set("width", &num(rng));
        }
        if rng.chance(1, 3) {
            a.set("height", &num(rng));
        }
        shuffle(rng, &mut a.attrs);
        items.push(Node::El(a));
    }
    for _ in 0..rng.below(3) {
        let cps = ["0041", "61", "1F600", "e9", "0041", "10FFFF", "0", "00E9"];
        items.push(Node::El(El::new("unicode", &[("hex", pk(rng, &cps))])));
    }
    if v2 && rng.chance(1, 3) {
        let mut i = El::new("image", &[("fileName", pk(rng, &IMAGES))]);
        transform_attrs(rng, &mut i);
        if rng.chance(1, 2) {
            i.set("color", pk(rng, &COLORS));
        }
        shuffle(rng, &mut i.attrs);
        items.push(Node::El(i));
    }
    if rng.chance(5, 6) {
        let mut o = El::new("outline", &[]);
        let n = rng.below(4);
        for _ in 0..n {
            if rng.chance(2, 3) {
                let letters = contour_letters(rng, true);
                o.kids.push(Node::El(contour_el(rng, &mut ids, v2, &letters, idp)));
            } else {
                let mut c = El::new("component", &[("base", pk(rng, &NAMES))]);
                transform_attrs(rng, &mut c);
                if v2 && rng.chance(idp, 4) {
                    c.set("identifier", &ids.fresh(rng));
                }
                shuffle(rng, &mut c.attrs);
                o.kids.push(Node::El(c));
            }
        }
        if !v2 && rng.chance(1, 2) {
            // format 1: a single named move point is an anchor
            let mut c = El::new("contour", &[]);
            let mut p = El::new("point", &[("x", "10"), ("y", "20"), ("type", "move")]);
            if rng.chance(4, 5) {
                p.set("name", pk(rng, &NAMES));
            }
            shuffle(rng, &mut p.attrs);
            c.kids.push(Node::El(p));
            let at = rng.below(o.kids.len() + 1);
            o.kids.insert(at, Node::El(c));
        }
        if o.kids.is_empty() && rng.chance(1, 2) {
            o.style = Style::Explicit;
        }
        items.push(Node::El(o));
    }
    if v2 {
        for _ in 0..rng.below(3) {
            let mut a = El::new("anchor", &[]);
            a.set("x", &num(rng));
            a.set("y", &num(rng));
            if rng.chance(1, 2) {
                a.set("name", pk(rng, &NAMES));
            }
            if rng.chance(1, 3) {
                a.set("color", pk(rng, &COLORS));
            }
            if rng.chance(idp, 4) {
                a.set("identifier", &ids.fresh(rng));
            }
            shuffle(rng, &mut a.attrs);
            items.push(Node::El(a));
        }
        for _ in 0..rng.below(3) {
            let mut g = El::new("guideline", &[]);
            match rng.below(3) {
                0 => g.set("x", &num(rng)),
                1 => g.set("y", &num(rng)),
                _ => {
                    g.set("x", &num(rng));
                    g.set("y", &num(rng));
                    g.set("angle", pk(rng, &["0", "360", "45", "359.999", "0.0", "180", "-0"]));
                }
            }
            if rng.chance(1, 2) {
                g.set("name", pk(rng, &NAMES));
            }
            if rng.chance(1, 3) {
                g.set("color", pk(rng, &COLORS));
            }
            if rng.chance(idp, 4) {
                g.set("identifier", &ids.fresh(rng));
            }
            shuffle(rng, &mut g.attrs);
            items.push(Node::El(g));
        }
    }
    shuffle(rng, &mut items);
    root.kids = items;
    // lib: after the objects so that object libs can refer to their identifiers
    if rng.chance(1, 2) {
        let have = collect_ids(&root);
        let mut extra = Vec::new();
        if v2 && !have.is_empty() && rng.chance(2, 3) {
            let mut ol = Vec::new();
            for id in &have {
                if rng.chance(1, 2) {
                    ol.push((id.clone(), plist_dict_xml(rng, 2, &[])));
                }
            }
            if rng.chance(1, 4) {
                ol.push(("unmatched".to_string(), plist_dict_xml(rng, 2, &[])));
            }
            extra.push(("public.objectLibs".to_string(), plist_dict_xml(rng, 2, &ol)));
        }
        let mut l = El::new("lib", &[]);
        l.kids.push(Node::Raw(format!("{}\n", plist_dict_xml(rng, 0, &extra))));
        let at = rng.below(root.kids.len() + 1);
        root.kids.insert(at, Node::El(l));
    }
    if v2 && rng.chance(1, 3) {
        let mut n = El::new("note", &[]);
        n.kids.push(Node::Raw(pk(rng, &["a note", "x &amp; y", "line1\nline2", "\u{e9}", "a\r\nb", "a\rb &lt;c&gt;", "\u{a0}x\u{3000}", "\u{3000}", " \u{2003}y\u{2029} "]).to_string()));
        let at = rng.below(root.kids.len() + 1);
        root.kids.insert(at, Node::El(n));
    }
    root
}

// ------------------------------------------------------------------ violations

const BAD_NUMS: [&str; 14] = ["", "abc", "1,0", " 1", "1 ", "0x10", "--1", "1e", "e5", ".", "1.2.3", "1_000", "\u{661}", "1;"];
const ODD_NUMS: [&str; 8] = ["inf", "+1", ".5", "5.", "1E400", "NaN", "-infinity", "1e5"];
const BAD_COLORS: [&str; 10] = ["", "1,0,0", "1,0,0,1,0", "2,0,0,1", "1,0,0,-0.5", "red", "1,0,0,", "1;0;0;1", "nan,0,0,1", "1,0,0,1.0000001"];
const BAD_HEX: [&str; 8] = ["", "G", "110000", "D800", "DFFF", "ffffffffff", "0x41", "4 1"];
const BAD_IDS: [&str; 5] = ["\u{e9}", "a\u{7f}", "tab\there", "\u{1F600}", "nl\nx"];
const BAD_NAMES: [&str; 4] = ["", "a\u{1}b", "\u{7f}", "x\u{85}"];
const BAD_IMAGES: [&str; 4] = ["", "/abs.png", "a/b.png", "./a/b"];
const ODD_IMAGES: [&str; 5] = ["a/", "./a", "..", "a/.", "a//"];
const NUMERIC_ATTRS: [(&str, &str); 22] = [
    ("advance", "width"), ("advance", "height"), ("anchor", "x"), ("anchor", "y"), ("guideline", "x"), ("guideline", "y"),
    ("guideline", "angle"), ("point", "x"), ("point", "y"), ("component", "xScale"), ("component", "xyScale"),
    ("component", "yxScale"), ("component", "yScale"), ("component", "xOffset"), ("component", "yOffset"),
    ("image", "xScale"), ("image", "xyScale"), ("image", "yxScale"), ("image", "yScale"), ("image", "xOffset"),
    ("image", "yOffset"), ("glyph", "format"),
];
const ID_KINDS: [&str; 5] = ["anchor", "guideline", "contour", "point", "component"];
pub const N_KINDS: usize = 52;

fn pick_path(rng: &mut Rng, root: &El, names: &[&str]) -> Option<Vec<usize>> {
    let ps = paths_named(root, names);
    if ps.is_empty() {
        None
    } else {
        Some(ps[rng.below(ps.len())].clone())
    }
}

fn parent_and_index(p: &[usize]) -> (Vec<usize>, usize) {
    (p[..p.len() - 1].to_vec(), p[p.len() - 1])
}

/// apply violation / variation `kind` at a random applicable position; None = not applicable
/// spellings that are NOT the name `n` but resemble it: the parser compares the full tag / attribute name literally, so
/// a known name behind a namespace prefix, with a colon anywhere, in another case, or with a character next to it that
/// quick-xml keeps in the name (every blank except space, tab, CR, LF; control characters) is an unknown name
fn name_variants(n: &str) -> Vec<String> {
    let mut v: Vec<String> = Vec::new();
    for p in ["x:", "xml:", "xmlns:", "other.vendor:", ":", "x:y:", "glif:", "\u{e9}:"] {
        v.push(format!("{}{}", p, n));
    }
    for s in [":", ":x", ":advance", ".", "-", "s", "_"] {
        v.push(format!("{}{}", n, s));
    }
    let mut cs = n.chars();
    let first = cs.next().unwrap();
    v.push(format!("{}{}", first.to_uppercase(), cs.as_str()));
    v.push(n.to_uppercase());
    if n.to_lowercase() != n {
        v.push(n.to_lowercase());
    }
    // the last CHARACTER (a name already renamed by a stacked mutation may end in a multi-byte one)
    let k = n.char_indices().last().map(|(i, _)| i).unwrap_or(0);
    v.push(format!("{}{}", &n[..k], n[k..].to_uppercase()));
    for b in ["\u{a0}", "\u{3000}", "\u{2003}", "\u{2028}", "\u{85}", "\u{b}", "\u{c}", "\u{1}", "\u{1f}", "\u{7f}", "\u{200b}", "\u{feff}"] {
        v.push(format!("{}{}", n, b));
        v.push(format!("{}{}", b, n));
    }
    if k > 0 {
        v.push(n[..k].to_string());
    }
    v
}

fn is_v1(d: &El) -> bool {
    d.attrs.iter().any(|a| a.0 == "format" && a.1 == "1")
}

/// rename one element (chosen among `names`) to a variant of its name, in empty-element or start-tag form
fn rename_element(rng: &mut Rng, d: &mut El, names: &[&str]) -> Option<()> {
    let p = pick_path(rng, d, names)?;
    let e = at_mut(d, &p);
    let vs = name_variants(&e.name);
    e.name = vs[rng.below(vs.len())].clone();
    if e.kids.is_empty() {
        e.style = *rng.pick(&[Style::SelfClose, Style::SelfClose, Style::Explicit]);
    }
    // declared or not: the parser is not namespace aware (and refuses the declaration on <glyph> as an unknown attribute)
    if rng.chance(1, 5) {
        let k = *rng.pick(&["xmlns:x", "xmlns:xml", "xmlns"]);
        let pos = rng.below(d.attrs.len() + 1);
        d.attrs.insert(pos, (k.to_string(), "urn:x".to_string()));
    }
    Some(())
}

pub fn mutate(rng: &mut Rng, base: &El, kind: usize) -> Option<(El, bool)> {
    let mut d = base.clone();
    let mut decl = true;
    match kind {
        // ---- duplicates of the five once-only elements, inserted at any body position
        0..=4 => {
            let name = ["advance", "outline", "lib", "note", "image"][kind];
            let p = pick_path(rng, &d, &[name])?;
            if p.len() != 1 {
                return None;
            }
            let mut copy = at(&d, &p).clone();
            if rng.chance(1, 2) && (name == "outline") {
                copy.kids.clear();
                copy.style = if rng.chance(1, 2) { Style::SelfClose } else { Style::Explicit };
            }
            let pos = rng.below(d.kids.len() + 1);
            d.kids.insert(pos, Node::El(copy));
        }
        // ---- version
        5 => {
            let v = *rng.pick(&["0", "3", "11", "22", "-1", "x", "", "2.0", "4294967297"]);
            d.set("format", v);
        }
        6 => d.del("format"),
        7 => d.set("formatMinor", pk(rng, &["1", "2", "x", "-0"])),
        // ---- glyph name
        8 => d.del("name"),
        9 => d.set("name", pk(rng, &BAD_NAMES)),
        // ---- identifiers
        10 => {
            // the same identifier on two objects (any two of the five kinds)
            let ps = paths_named(&d, &ID_KINDS);
            let ps: Vec<_> = ps.into_iter().filter(|p| !(at(&d, p).name == "contour" && at(&d, p).kids.is_empty() && at(&d, p).style != Style::Explicit)).collect();
            if ps.len() < 2 {
                return None;
            }
            let i = rng.below(ps.len());
            let mut j = rng.below(ps.len());
            if i == j {
                j = (j + 1) % ps.len();
            }
            let id = match at(&d, &ps[i]).attrs.iter().find(|a| a.0 == "identifier") {
                Some(a) => a.1.clone(),
                None => "dup".to_string(),
            };
            at_mut(&mut d, &ps[i]).set("identifier", &id);
            at_mut(&mut d, &ps[j]).set("identifier", &id);
        }
        11 => {
            let p = pick_path(rng, &d, &ID_KINDS)?;
            at_mut(&mut d, &p).set("identifier", pk(rng, &BAD_IDS));
        }
        12 => {
            let p = pick_path(rng, &d, &ID_KINDS)?;
            at_mut(&mut d, &p).set("identifier", &"i".repeat(*rng.pick(&[100usize, 101, 150])));
        }
        13 => {
            let p = pick_path(rng, &d, &ID_KINDS)?;
            at_mut(&mut d, &p).set("identifier", "");
        }
        // ---- format 1 with format-2-only material
        14 => {
            if at(&d, &[]).attrs.iter().any(|a| a.0 == "format" && a.1 == "1") {
                // add one v2-only thing to a legal v1 document
                match rng.below(5) {
                    0 => d.kids.push(Node::El(El::new("anchor", &[("x", "1"), ("y", "2")]))),
                    1 => d.kids.push(Node::El(El::new("guideline", &[("x", "1")]))),
                    2 => d.kids.push(Node::El(El::new("image", &[("fileName", "i.png")]))),
                    3 => {
                        let mut n = El::new("note", &[]);
                        n.kids.push(Node::Raw("n".to_string()));
                        d.kids.push(Node::El(n));
                    }
                    _ => {
                        let p = pick_path(rng, &d, &["contour", "point", "component"])?;
                        at_mut(&mut d, &p).set("identifier", "v1id");
                        if at(&d, &p).name == "contour" && at(&d, &p).kids.is_empty() {
                            at_mut(&mut d, &p).style = Style::Explicit;
                        }
                    }
                }
            } else {
                // downgrade a v2 document: legal only if it uses nothing of format 2
                d.set("format", "1");
            }
        }
        // ---- required attributes
        15 => {
            let (el, att) = *rng.pick(&[("anchor", "x"), ("anchor", "y"), ("point", "x"), ("point", "y"), ("component", "base"), ("image", "fileName")]);
            let p = pick_path(rng, &d, &[el])?;
            at_mut(&mut d, &p).del(att);
        }
        // ---- guideline shape: every subset of {x, y, angle}
        16 => {
            let p = pick_path(rng, &d, &["guideline"])?;
            let m = rng.below(8);
            let g = at_mut(&mut d, &p);
            g.del("x");
            g.del("y");
            g.del("angle");
            if m & 1 != 0 {
                g.set("x", "1");
            }
            if m & 2 != 0 {
                g.set("y", "2");
            }
            if m & 4 != 0 {
                g.set("angle", "30");
            }
        }
        17 => {
            let p = pick_path(rng, &d, &["guideline"])?;
            let g = at_mut(&mut d, &p);
            g.set("x", "1");
            g.set("y", "2");
            g.set("angle", pk(rng, &["-1", "-0.0", "0", "360", "360.0", "360.00000000000006", "361", "1e3", "-1e-300", "720"]));
        }
        // ---- unknown elements at each level
        18 => {
            let name = *rng.pick(&["foo", "Advance", "point", "contour", "component", "glyph", "dict"]);
            let e = El::new(name, &[]);
            let pos = rng.below(d.kids.len() + 1);
            d.kids.insert(pos, Node::El(e));
        }
        19 => {
            let p = pick_path(rng, &d, &["outline"])?;
            let name = *rng.pick(&["foo", "point", "anchor", "outline", "advance"]);
            let o = at_mut(&mut d, &p);
            let pos = rng.below(o.kids.len() + 1);
            o.kids.insert(pos, Node::El(El::new(name, &[("x", "1"), ("y", "2")])));
        }
        20 => {
            let p = pick_path(rng, &d, &["contour"])?;
            let name = *rng.pick(&["foo", "component", "contour", "Point"]);
            let o = at_mut(&mut d, &p);
            let pos = rng.below(o.kids.len() + 1);
            o.kids.insert(pos, Node::El(El::new(name, &[("x", "1"), ("y", "2")])));
        }
        // ---- unknown attributes on every element kind
        21 => {
            let p = pick_path(rng, &d, &["glyph", "advance", "unicode", "image", "anchor", "guideline", "point", "component"])?;
            let e = at_mut(&mut d, &p);
            let k = *rng.pick(&["foo", "X", "Name", "identifier2", "z"]);
            let pos = rng.below(e.attrs.len() + 1);
            e.attrs.insert(pos, (k.to_string(), "1".to_string()));
        }
        22 => {
            let p = pick_path(rng, &d, &["contour"])?;
            let e = at_mut(&mut d, &p);
            if e.kids.is_empty() {
                e.style = Style::Explicit;
            }
            e.attrs.push(("foo".to_string(), "1".to_string()));
        }
        23 => {
            let p = pick_path(rng, &d, &["outline", "lib", "note"])?;
            at_mut(&mut d, &p).attrs.push(("foo".to_string(), "1".to_string()));
        }
        // attributes that belong to another element
        24 => {
            let (el, att) = *rng.pick(&[("anchor", "angle"), ("guideline", "type"), ("point", "color"), ("component", "name"), ("image", "identifier"), ("advance", "x"), ("unicode", "name"), ("image", "base"), ("component", "color"), ("component", "fileName")]);
            let p = pick_path(rng, &d, &[el])?;
            at_mut(&mut d, &p).set(att, "1");
        }
        // ---- lib
        25 => {
            let p = pick_path(rng, &d, &["lib"])?;
            let body = *rng.pick(&["<array><string>a</string></array>", "<string>x</string>", "<dict><key>a</key></dict>", "", "<dict>", "<integer>1</integer>", "<dict><key>a</key><string>x</string></dict><dict/>", "text"]);
            at_mut(&mut d, &p).kids = vec![Node::Raw(body.to_string())];
        }
        26 => {
            let p = pick_path(rng, &d, &["lib"])?;
            let body = *rng.pick(&["<dict><key>public.objectLibs</key><array/></dict>", "<dict><key>public.objectLibs</key><string>x</string></dict>", "<dict><key>public.objectLibs</key><dict/></dict>"]);
            at_mut(&mut d, &p).kids = vec![Node::Raw(body.to_string())];
        }
        27 => {
            // an object-lib entry that is not a dictionary, for an identifier in use or not
            let ids = collect_ids(&d);
            let id = if !ids.is_empty() && rng.chance(3, 4) { ids[rng.below(ids.len())].clone() } else { "nobody".to_string() };
            let v = *rng.pick(&["<string>x</string>", "<array/>", "<integer>3</integer>"]);
            let body = format!("<dict><key>public.objectLibs</key><dict><key>{}</key>{}</dict></dict>", esc(&id), v);
            match pick_path(rng, &d, &["lib"]) {
                Some(p) => at_mut(&mut d, &p).kids = vec![Node::Raw(body)],
                None => {
                    let mut l = El::new("lib", &[]);
                    l.kids.push(Node::Raw(body));
                    d.kids.push(Node::El(l));
                }
            }
        }
        // ---- malformed values
        28 => {
            let (el, att) = *rng.pick(&NUMERIC_ATTRS);
            let p = pick_path(rng, &d, &[el])?;
            if el == "guideline" && !at(&d, &p).has(att) {
                return None;
            }
            at_mut(&mut d, &p).set(att, pk(rng, &BAD_NUMS));
        }
        29 => {
            let (el, att) = *rng.pick(&NUMERIC_ATTRS[..21]);
            let p = pick_path(rng, &d, &[el])?;
            if el == "guideline" && !at(&d, &p).has(att) {
                return None;
            }
            at_mut(&mut d, &p).set(att, pk(rng, &ODD_NUMS));
        }
        30 => {
            let p = pick_path(rng, &d, &["anchor", "guideline", "image"])?;
            at_mut(&mut d, &p).set("color", pk(rng, &BAD_COLORS));
        }
        31 => {
            let p = pick_path(rng, &d, &["anchor", "guideline", "image"])?;
            at_mut(&mut d, &p).set("color", pk(rng, &["1, 0, 0, 1", " 1,0,0,1", "1,0,0,1 ", "+1,0,0,1", "1e0,0,0,1", ".5,0,0,1"]));
        }
        32 => {
            let p = pick_path(rng, &d, &["unicode"])?;
            at_mut(&mut d, &p).set("hex", pk(rng, &BAD_HEX));
        }
        33 => {
            let p = pick_path(rng, &d, &["unicode"])?;
            at_mut(&mut d, &p).set("hex", pk(rng, &["+41", "+0041", "+1F600"]));
        }
        34 => {
            let p = pick_path(rng, &d, &["point"])?;
            at_mut(&mut d, &p).set("type", pk(rng, &["", "Move", "off", "offCurve", "arc", "line "]));
        }
        35 => {
            let (el, att) = *rng.pick(&[("anchor", "name"), ("guideline", "name"), ("point", "name"), ("component", "base")]);
            let p = pick_path(rng, &d, &[el])?;
            at_mut(&mut d, &p).set(att, pk(rng, &BAD_NAMES));
        }
        36 => {
            let p = pick_path(rng, &d, &["image"])?;
            at_mut(&mut d, &p).set("fileName", pk(rng, &BAD_IMAGES));
        }
        37 => {
            let p = pick_path(rng, &d, &["image"])?;
            at_mut(&mut d, &p).set("fileName", pk(rng, &ODD_IMAGES));
        }
        // ---- illegal contours (the automaton itself is C11's job; here: position in a document)
        38 => {
            let p = pick_path(rng, &d, &["outline"])?;
            let v2 = !at(&d, &[]).attrs.iter().any(|a| a.0 == "format" && a.1 == "1");
            let letters = contour_letters(rng, false);
            let mut ids = Ids { n: 900 };
            let c = contour_el(rng, &mut ids, v2, &letters, 1);
            let o = at_mut(&mut d, &p);
            let pos = rng.below(o.kids.len() + 1);
            o.kids.insert(pos, Node::El(c));
        }
        // ---- surface syntax: legal XML that means the same
        39 => {
            // a comment at any level
            let p = pick_path(rng, &d, &["glyph", "outline", "contour", "note", "lib"])?;
            let e = at_mut(&mut d, &p);
            if e.name == "contour" && e.kids.is_empty() {
                e.style = Style::Explicit;
            }
            let pos = rng.below(e.kids.len() + 1);
            e.kids.insert(pos, Node::Comment(" c ".to_string()));
        }
        40 => {
            let p = pick_path(rng, &d, &["advance", "unicode", "anchor", "guideline", "image", "point", "component"])?;
            at_mut(&mut d, &p).style = Style::Explicit;
        }
        41 => {
            match rng.below(3) {
                0 => {
                    // <note/>
                    if at(&d, &[]).attrs.iter().any(|a| a.0 == "format" && a.1 == "1") || !paths_named(&d, &["note"]).is_empty() {
                        return None;
                    }
                    let pos = rng.below(d.kids.len() + 1);
                    d.kids.insert(pos, Node::El(El::new("note", &[])));
                }
                1 => {
                    // <note></note>
                    if at(&d, &[]).attrs.iter().any(|a| a.0 == "format" && a.1 == "1") || !paths_named(&d, &["note"]).is_empty() {
                        return None;
                    }
                    let mut n = El::new("note", &[]);
                    n.style = Style::Explicit;
                    let pos = rng.below(d.kids.len() + 1);
                    d.kids.insert(pos, Node::El(n));
                }
                _ => {
                    // self-closed glyph
                    d.kids.clear();
                    d.style = Style::SelfClose;
                }
            }
        }
        42 => {
            // prolog variations: no declaration, comments before the root, BOM handled by the caller
            decl = false;
        }
        // ---- not XML / not the glif shape
        43 => {
            let what = *rng.pick(&["stray text", "<?pi x?>", "<![CDATA[x]]>", "&amp;"]);
            let p = pick_path(rng, &d, &["glyph", "outline", "contour"])?;
            let e = at_mut(&mut d, &p);
            if e.name == "contour" && e.kids.is_empty() {
                e.style = Style::Explicit;
            }
            let pos = rng.below(e.kids.len() + 1);
            e.kids.insert(pos, Node::Raw(format!("{}\n", what)));
        }
        44 => {
            // duplicate attribute
            let p = pick_path(rng, &d, &["glyph", "advance", "anchor", "guideline", "point", "component", "image", "unicode"])?;
            let e = at_mut(&mut d, &p);
            if e.attrs.is_empty() {
                return None;
            }
            let a = e.attrs[rng.below(e.attrs.len())].clone();
            e.attrs.push(a);
        }
        45 => {
            // wrong root element
            if rng.chance(1, 3) {
                d.name = pk(rng, &["Glyph", "glif", "outline"]).to_string();
            } else {
                let vs = name_variants("glyph");
                d.name = vs[rng.below(vs.len())].clone();
            }
        }
        // ---- names that only resemble a known name (namespace prefix, colon, case, a kept blank or control character)
        // elements of the glyph body, empty-element and start-tag forms
        46 => rename_element(rng, &mut d, &["advance", "unicode", "anchor", "guideline", "image", "outline", "lib", "note"])?,
        // elements of the outline and of a contour
        47 => rename_element(rng, &mut d, &["contour", "component", "point"])?,
        // an additional element with such a name next to the real one (it must not count as the one allowed advance etc.)
        48 => {
            let host: Vec<usize> = match rng.below(4) {
                0 => pick_path(rng, &d, &["outline"]).unwrap_or_default(),
                1 => pick_path(rng, &d, &["contour"]).unwrap_or_default(),
                _ => Vec::new(),
            };
            let v1 = is_v1(&d);
            let h = at_mut(&mut d, &host);
            let (n, attrs): (&str, Vec<(&str, &str)>) = match h.name.as_str() {
                "contour" => ("point", vec![("x", "1"), ("y", "2"), ("type", "line")]),
                "outline" => {
                    if rng.chance(1, 2) {
                        ("component", vec![("base", "b")])
                    } else {
                        ("contour", vec![])
                    }
                }
                _ => match rng.below(if v1 { 3 } else { 8 }) {
                    0 => ("advance", vec![("width", "500")]),
                    1 => ("unicode", vec![("hex", "0041")]),
                    2 => ("outline", vec![]),
                    3 => ("anchor", vec![("x", "1"), ("y", "2"), ("name", "top")]),
                    4 => ("guideline", vec![("x", "10")]),
                    5 => ("image", vec![("fileName", "a.png")]),
                    6 => ("note", vec![]),
                    _ => ("lib", vec![]),
                },
            };
            let vs = name_variants(n);
            // half of the time a namespace prefix (the first eight variants)
            let i = if rng.chance(1, 2) { rng.below(8) } else { rng.below(vs.len()) };
            let mut e = El::new(&vs[i], &attrs);
            if rng.chance(1, 4) {
                e.style = Style::Explicit;
            }
            if h.name == "contour" && h.kids.is_empty() {
                h.style = Style::Explicit;
            }
            let pos = rng.below(h.kids.len() + 1);
            h.kids.insert(pos, Node::El(e));
        }
        // an attribute renamed to a variant of its name, on every element kind
        49 => {
            let ps: Vec<_> = paths(&d).into_iter().filter(|p| !at(&d, p).attrs.is_empty()).collect();
            if ps.is_empty() {
                return None;
            }
            let p = ps[rng.below(ps.len())].clone();
            let e = at_mut(&mut d, &p);
            if e.name == "contour" && e.kids.is_empty() {
                e.style = Style::Explicit;
            }
            let i = rng.below(e.attrs.len());
            let vs = name_variants(&e.attrs[i].0);
            let nn = vs[rng.below(vs.len())].clone();
            if e.attrs.iter().any(|a| a.0 == nn) {
                return None;
            }
            if rng.chance(1, 2) {
                // next to the real attribute instead of replacing it
                let a = (nn, e.attrs[i].1.clone());
                let pos = rng.below(e.attrs.len() + 1);
                e.attrs.insert(pos, a);
            } else {
                e.attrs[i].0 = nn;
            }
        }
        // namespace machinery as attributes: the glif format defines none of them
        50 => {
            let ps = paths(&d);
            let p = ps[rng.below(ps.len())].clone();
            let e = at_mut(&mut d, &p);
            if e.name == "contour" && e.kids.is_empty() && rng.chance(1, 2) {
                e.style = Style::Explicit;
            }
            let (k, v) = *rng.pick(&[("xmlns", "http://unifiedfontobject.org/glif"), ("xmlns:x", "urn:x"), ("xml:space", "preserve"), ("xml:lang", "en"),
                ("xml:id", "i1"), ("xmlns:name", "a"), ("xmlns:format", "2"), ("x:name", "a"), ("xml:base", "b"), ("XMLNS", "u")]);
            if e.attrs.iter().any(|a| a.0 == k) {
                return None;
            }
            let pos = rng.below(e.attrs.len() + 1);
            e.attrs.insert(pos, (k.to_string(), v.to_string()));
        }
        // elements inside a note: only the end tag spelt exactly `note` ends it
        51 => {
            if is_v1(&d) {
                return None;
            }
            let inner = *rng.pick(&["a<x:note>b</x:note>c", "a<b>bold</b>c", "<x:note/>t", "a<note:x>b</note:x>", "a<Note>b</Note>c", "a<note\u{a0}>b</note\u{a0}>c",
                "a<note>b</note>c", "<lib/>", "a<!-- c -->b", "a<xml:note>b</xml:note>", "<:note>x</:note>y"]);
            match pick_path(rng, &d, &["note"]) {
                Some(p) => at_mut(&mut d, &p).kids = vec![Node::Raw(inner.to_string())],
                None => {
                    let mut n = El::new("note", &[]);
                    n.kids.push(Node::Raw(inner.to_string()));
                    let pos = rng.below(d.kids.len() + 1);
                    d.kids.insert(pos, Node::El(n));
                }
            }
        }
        _ => return None,
    }
    Some((d, decl))
}

fn emit(out: &mut dyn Write, doc: &[u8]) {
    writeln!(out, "{}", line_for(doc)).unwrap();
}

/// text-level damage that the tree cannot express
fn text_damage(rng: &mut Rng, s: &str) -> Vec<u8> {
    match rng.below(7) {
        0 => {
            // truncate at a random line end
            let cut: Vec<usize> = s.match_indices('\n').map(|m| m.0).collect();
            let c = cut[rng.below(cut.len())];
            s.as_bytes()[..c].to_vec()
        }
        1 => {
            let mut v = vec![0xEF, 0xBB, 0xBF];
            v.extend_from_slice(s.as_bytes());
            v
        }
        2 => format!("<!-- top -->\n{}", s).into_bytes(),
        3 => s.replacen("<glyph", "<!DOCTYPE glyph>\n<glyph", 1).into_bytes(),
        4 => s.replacen("</outline>", "</contour>", 1).into_bytes(),
        5 => format!("{}<trailing/>\n", s).into_bytes(),
        _ => s.replacen("</glyph>", "", 1).into_bytes(),
    }
}

pub fn gen(tier: &str, seed: u64, out: &mut dyn Write) {
    let mut rng = Rng::new(seed);
    let bases = if tier == "thorough" { 9000 } else { 280 };
    let per_kind = if tier == "thorough" { 3 } else { 2 };
    for b in 0..bases {
        let v2 = b % 4 != 3;
        let base = legal_doc(&mut rng, v2);
        let text = write_doc(&base, true);
        emit(out, text.as_bytes());
        // every violation kind, at `per_kind` random applicable positions
        for kind in 0..N_KINDS {
            for _ in 0..per_kind {
                if let Some((d, decl)) = mutate(&mut rng, &base, kind) {
                    emit(out, write_doc(&d, decl).as_bytes());
                    // sometimes a second, independent violation on top
                    if rng.chance(1, 12) {
                        let k2 = rng.below(N_KINDS);
                        if let Some((d2, decl2)) = mutate(&mut rng, &d, k2) {
                            emit(out, write_doc(&d2, decl2).as_bytes());
                        }
                    }
                }
            }
        }
        for _ in 0..2 {
            let dmg = text_damage(&mut rng, &text);
            emit(out, &dmg);
        }
    }
}
