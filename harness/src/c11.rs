//! C11: contour acceptance.  Generated glif documents through `Glyph::parse_raw`.
//!
//! line: `C11 <fmt> :<c1>,<c2>,.. => ok :<idx>=<c>,.. | err <kind> | panic`
//! contour = letters m l o c q, upper case = smooth.
use crate::common::*;
use crate::rng::Rng;
use norad::{Glyph, PointType};
use std::io::Write;

const LETTERS: [char; 5] = ['m', 'l', 'o', 'c', 'q'];

fn typ_name(c: char) -> &'static str {
    match c.to_ascii_lowercase() {
        'm' => "move",
        'l' => "line",
        'o' => "offcurve",
        'c' => "curve",
        'q' => "qcurve",
        _ => unreachable!(),
    }
}

fn letter(t: &PointType) -> char {
    match t {
        PointType::Move => 'm',
        PointType::Line => 'l',
        PointType::OffCurve => 'o',
        PointType::Curve => 'c',
        PointType::QCurve => 'q',
    }
}

/// the k-th permutation (0..24) of the four attribute groups of a <point>: 0 = the order norad's writer uses
fn perm4(k: usize) -> [usize; 4] {
    let mut items = vec![0usize, 1, 2, 3];
    let mut out = [0usize; 4];
    let mut k = k % 24;
    let mut f = 6;
    for i in 0..4 {
        let idx = k / f;
        k %= f;
        if i < 3 {
            f /= (3 - i).max(1);
        }
        out[i] = items.remove(idx);
    }
    out
}

pub fn document(fmt: u32, contours: &[String]) -> String {
    document_o(fmt, 0, contours)
}

/// spelling of an enumerated attribute value: 0 literal, 1 first character as a decimal character reference,
/// 2 every character as a hexadecimal character reference (`yes` = `&#x79;&#x65;&#x73;`): the parser must compare the
/// UNESCAPED value
fn spell(v: &str, how: usize) -> String {
    match how {
        0 => v.to_string(),
        1 => {
            let mut it = v.chars();
            match it.next() {
                Some(c) => format!("&#{};{}", c as u32, it.as_str()),
                None => String::new(),
            }
        }
        _ => v.chars().map(|c| format!("&#x{:x};", c as u32)).collect(),
    }
}

/// `order`: `order % 24` = which permutation of the attribute groups (x y | type | smooth | name) every point is written
/// in (acceptance must not depend on it: third-party writers sort attributes differently); `order / 24` = how the values
/// of `type` and `smooth` are spelt (see `spell`)
pub fn document_o(fmt: u32, order: usize, contours: &[String]) -> String {
    let how = order / 24;
    let order = order % 24;
    let permuted = order != 0 || how != 0;
    // how == 3: every point of a contour has the SAME coordinates (x = contour index, y = 0): a repeated closing point,
    // stacked points - legal, and "returned point for point" must still hold
    let same_xy = how == 3;
    let how = if same_xy { 0 } else { how };
    let mut s = String::new();
    s.push_str("<?xml version=\"1.0\" encoding=\"UTF-8\"?>\n");
    s.push_str(&format!("<glyph name=\"a\" format=\"{}\">\n<outline>\n", fmt));
    for (ci, c) in contours.iter().enumerate() {
        if c.is_empty() {
            s.push_str("<contour/>\n");
            continue;
        }
        s.push_str("<contour>\n");
        let chars: Vec<char> = c.chars().collect();
        let mut pi = 0usize;
        let mut k = 0usize;
        while k < chars.len() {
            let ch = chars[k];
            let named = k + 1 < chars.len() && chars[k + 1] == '\'';
            k += if named { 2 } else { 1 };
            s.push_str("<point");
            let mut groups: [String; 4] = Default::default();
            groups[0] = format!(" x=\"{}\" y=\"{}\"", ci, if same_xy { 0 } else { pi });
            // an on-curve "line"/"offcurve" distinction is by the `type` attribute; offcurve may be
            // written without the attribute (the default), exercised for every second off-curve
            if !(ch.to_ascii_lowercase() == 'o' && pi % 2 == 1) {
                groups[1] = format!(" type=\"{}\"", spell(typ_name(ch), how));
            }
            if ch.is_ascii_uppercase() {
                groups[2] = format!(" smooth=\"{}\"", spell("yes", how));
            } else if permuted && pi % 3 == 2 {
                // the default spelt out (only in the permuted documents, so that order 0 stays what it was)
                groups[2] = format!(" smooth=\"{}\"", spell("no", how));
            }
            if named {
                // a name full of XML-special characters, written with entities
                groups[3] = format!(" name=\"{}\"", point_name(ci, pi).replace('&', "&amp;").replace('<', "&lt;").replace('"', "&quot;"));
            }
            for g in perm4(order) {
                s.push_str(&groups[g]);
            }
            s.push_str("/>\n");
            pi += 1;
        }
        s.push_str("</contour>\n");
    }
    s.push_str("</outline>\n</glyph>\n");
    s
}

pub fn point_name(ci: usize, pi: usize) -> String {
    format!("Q&A<{}>\"'{}", ci, pi)
}

pub fn observe(fmt: u32, contours: &[String]) -> String {
    observe_o(fmt, 0, contours)
}

pub fn observe_o(fmt: u32, order: usize, contours: &[String]) -> String {
    let same_xy = order / 24 == 3;
    let doc = document_o(fmt, order, contours);
    match guarded(|| Glyph::parse_raw(doc.as_bytes())) {
        Err(_) => "panic".to_string(),
        Ok(Err(e)) => {
            let k = match e {
                norad::error::GlifLoadError::Parse(k) => format!("{:?}", k),
                other => format!("other:{:?}", other).replace(' ', "_"),
            };
            format!("err {}", k)
        }
        Ok(Ok(g)) => {
            let mut parts = Vec::new();
            for c in &g.contours {
                let idx = c.points.first().map(|p| p.x).unwrap_or(-1.0);
                let mut s = format!("{}=", idx as i64);
                for (pi, p) in c.points.iter().enumerate() {
                    let l = letter(&p.typ);
                    let l = if p.smooth { l.to_ascii_uppercase() } else { l };
                    if p.y != (if same_xy { 0.0 } else { pi as f64 }) || p.x != idx {
                        s.push('?');
                    } else {
                        s.push(l);
                    }
                    // names come back exactly as written, on the point they were written on
                    if let Some(n) = &p.name {
                        if n.as_str() == point_name(idx as usize, pi) {
                            s.push('\'');
                        } else {
                            s.push('!');
                        }
                    }
                }
                parts.push(s);
            }
            // format 1: a contour consisting of one named move point becomes an anchor (x = contour index)
            let mut anchors: Vec<String> = Vec::new();
            for a in &g.anchors {
                let ok = a.y == 0.0 && a.name.as_ref().map(|n| n.as_str() == point_name(a.x as usize, 0)).unwrap_or(false);
                anchors.push(format!("{}{}", a.x as i64, if ok { "" } else { "?" }));
            }
            let extra = if g.components.is_empty() { "" } else { " extra" };
            format!("ok :{} A:{}{}", parts.join(","), anchors.join(","), extra)
        }
    }
}

fn emit(out: &mut dyn Write, fmt: u32, contours: &[String]) {
    emit_o(out, fmt, 0, contours)
}

/// the format token is `<fmt>` or `<fmt>@<order>`; the model's prediction does not depend on the order
fn emit_o(out: &mut dyn Write, fmt: u32, order: usize, contours: &[String]) {
    let obs = observe_o(fmt, order, contours);
    if order == 0 {
        writeln!(out, "C11 {} :{} => {}", fmt, contours.join(","), obs).unwrap();
    } else {
        writeln!(out, "C11 {}@{} :{} => {}", fmt, order, contours.join(","), obs).unwrap();
    }
}

fn enumerate(len: usize, f: &mut dyn FnMut(&str)) {
    let mut idx = vec![0usize; len];
    loop {
        let s: String = idx.iter().map(|i| LETTERS[*i]).collect();
        f(&s);
        let mut k = len;
        loop {
            if k == 0 {
                return;
            }
            k -= 1;
            idx[k] += 1;
            if idx[k] < 5 {
                break;
            }
            idx[k] = 0;
        }
    }
}

pub fn gen(tier: &str, seed: u64, out: &mut dyn Write) {
    let max_len = if tier == "thorough" { 9 } else { 7 };
    // exhaustive: all type sequences up to max_len (format 2), up to 5 also format 1
    for len in 0..=max_len {
        enumerate(len, &mut |s| {
            emit(out, 2, &[s.to_string()]);
            if len <= 5 {
                emit(out, 1, &[s.to_string()]);
            }
            // every single-position smooth variant up to length 5
            if len <= 5 {
                for i in 0..len {
                    let v: String = s
                        .chars()
                        .enumerate()
                        .map(|(j, c)| if i == j { c.to_ascii_uppercase() } else { c })
                        .collect();
                    emit(out, 2, &[v]);
                }
            }
        });
    }
    // attribute order: every permutation of (x y | type | smooth | name) for all sequences up to length 4, each with every
    // single-position smooth variant and with the first point named, both formats (a writer that sorts attributes
    // alphabetically puts `smooth` before `type`; acceptance must not depend on that)
    for len in 1..=4 {
        enumerate(len, &mut |s0| {
            for i in 0..=len {
                let mut v: String = String::new();
                for (j, c) in s0.chars().enumerate() {
                    v.push(if i == j { c.to_ascii_uppercase() } else { c });
                    if j == 0 && len % 2 == 0 {
                        v.push('\'');
                    }
                }
                for order in 1..24 {
                    emit_o(out, 2, order, &[v.clone()]);
                    if len <= 2 {
                        emit_o(out, 1, order, &[v.clone()]);
                    }
                }
                // values of `type` / `smooth` spelt with character references, in norad's order and in two others
                for order in [24usize, 48, 24 + 7, 48 + 17, 72, 72 + 5] {
                    emit_o(out, 2, order, &[v.clone()]);
                    if len <= 2 {
                        emit_o(out, 1, order, &[v.clone()]);
                    }
                }
            }
        });
    }
    // stacked points: every sequence of length 5 and 6 with all points on the same coordinates
    for len in 5..=6 {
        enumerate(len, &mut |s0| {
            emit_o(out, 2, 72, &[s0.to_string()]);
        });
    }
    // long off-curve runs around the widths a narrower counter would wrap at (255/256/257, 511/512/513, 1023/1024/1025; the executable oracle is quadratic, so a 16-bit wrap is not reached)
    for n in [254usize, 255, 256, 257, 258, 511, 512, 513, 1023, 1024, 1025] {
        let o = "o".repeat(n);
        for pat in [
            format!("m{}l", o),
            format!("l{}c", o),
            format!("ml{}", o),
            format!("ll{}", o),
            format!("cl{}", o),
            format!("l{}q", o),
            format!("q{}", o),
            o.clone(),
            format!("oo{}c", &o[..n - 2]),
        ] {
            emit(out, 2, &[pat]);
        }
    }
    // named points (names full of XML-special characters), both formats: in format 1 a contour of exactly one named
    // move point becomes an anchor; every other named point stays where it is
    for fmt in [1u32, 2] {
        for pat in ["m'", "m'l", "m'll", "ml'", "m", "l'", "l'l", "o'oc", "m'o", "q'", "m'l'c'", "lc'oo"] {
            emit(out, fmt, &[pat.to_string()]);
            emit(out, fmt, &["ll".to_string(), pat.to_string(), "m'".to_string()]);
        }
    }
    // random: longer contours, several contours per outline, random smooth flags
    let mut rng = Rng::new(seed);
    let n = if tier == "thorough" { 200_000 } else { 20_000 };
    for _ in 0..n {
        let nc = 1 + rng.below(4);
        let mut cs = Vec::new();
        for _ in 0..nc {
            let cap = if rng.chance(1, 10) { 60 } else { 12 };
            let len = if rng.chance(1, 8) { 0 } else { 1 + rng.below(cap) };
            // bias towards legal material: weights m:1 (only first), l:3, o:5, c:3, q:2
            let mut s = String::new();
            for i in 0..len {
                let r = rng.below(14);
                let mut c = match r {
                    0 => 'm',
                    1..=3 => 'l',
                    4..=8 => 'o',
                    9..=11 => 'c',
                    _ => 'q',
                };
                if c == 'm' && i > 0 && !rng.chance(1, 20) {
                    c = 'l';
                }
                if i == 0 && rng.chance(1, 3) {
                    c = 'm';
                }
                let smooth = if c == 'o' { rng.chance(1, 40) } else { rng.chance(1, 3) };
                s.push(if smooth { c.to_ascii_uppercase() } else { c });
                if rng.chance(1, 6) {
                    s.push('\'');
                }
            }
            cs.push(s);
        }
        let order = if rng.chance(1, 2) { 0 } else { rng.below(24) + 24 * if rng.chance(1, 3) { 1 + rng.below(3) } else { 0 } };
        emit_o(out, if rng.chance(1, 5) { 1 } else { 2 }, order, &cs);
    }
}
