//! C06 (and the container level of C07): operation histories on `Font::layers` / `Layer`.
//!
//! line: `C06 <lc-table> <init> <op> <op> ... => <res>@<state> ... | save:<r> load:<r> <report>`
//!   init   = `new` | `load:<layer>;<layer>...`  layer = `hexname~hexdir~g=f+g=f`
//!   op     = `ig.<li>.<g>` `rg.<li>.<g>` `mg.<li>.<old>.<new>.<0|1>` `cl.<li>` `rt.<li>.<g+g>` `eo.<li>.<g>`
//!            `er.<li>.<g>` `nl.<n>` `gc.<n>` `rl.<n>` `ml.<old>.<new>.<0|1>` `rs.<n+n>` `re`
//!   state  = `<layer>;<layer>` layer = `hexname~hexpath~g+g~g=p+g=p`  (glyph names sorted; get_path of
//!            every pool name and every glyph)
//!   first observation token is the state right after init (`init@<state>`).
use crate::common::*;
use crate::rng::Rng;
use norad::{Font, Glyph, Name};
use std::collections::BTreeSet;
use std::io::Write;
use std::path::{Path, PathBuf};

pub fn pool() -> Vec<String> {
    let mut v: Vec<String> = [
        "a", "A", "a_", "A_", "b", "B", "con", "CON", ".notdef", "public.default", "glyphs", "glyphs.a",
        "\u{c9}", "\u{e9}_", "aux.x", "a.", "a b", "a/b", "A_01", "a_01",
    ]
    .iter()
    .map(|s| s.to_string())
    .collect();
    v.push("x".repeat(260));
    v.push("X".repeat(130));
    // case partners where the cased letter is NOT `char::is_uppercase`: titlecase (Lt) letters fold onto their
    // lower-case partner under `to_lowercase` (seeded change C07 r2-1)
    for s in CASE_PARTNERS {
        v.push(s.to_string());
    }
    // two names with ONE file name (`_aΣ_.glif`) whose capital sigma is word-final: `str::to_lowercase` gives the
    // final sigma, a char-wise lower-casing does not (seeded change C09-r5-1)
    for s in SIGMA_PAIR {
        v.push(s.to_string());
    }
    v
}

pub const SIGMA_PAIR: [&str; 2] = [".a\u{3a3}", "_a\u{3a3}"];

/// the i-th of 225 different valid names that all map to the file name `x__` (seeded change C06-r5-2: the
/// 101st must be refused with the documented panic, never given a file name that is taken)
pub fn clash_name(i: usize) -> String {
    const A: [char; 15] = [':', '?', '"', '(', ')', '[', ']', '*', '/', '\\', '+', '<', '>', '|', '_'];
    format!("x{}{}", A[(i / 15) % 15], A[i % 15])
}

/// (x, y) adjacent: `x.to_lowercase() == y.to_lowercase()`, x != y, and no character of x is `is_uppercase`
pub const CASE_PARTNERS: [&str; 8] =
    ["\u{1c5}", "\u{1c6}", "\u{1c8}e", "\u{1c9}e", "\u{1f88}.alt", "\u{1f80}.alt", "a\u{1f2}", "a\u{1f3}"];

pub fn invalid_pool() -> Vec<String> {
    vec!["".to_string(), "a\u{1}b".to_string(), "\u{7f}".to_string()]
}

/// the directory `new_layer(name)` asks for first / the file name `insert_glyph(name)` asks for first
fn natural(name: &str, layer: bool) -> String {
    let (pre, suf) = if layer { ("glyphs.", "") } else { ("", ".glif") };
    norad::user_name_to_file_name(name, pre, suf, |_| true).to_string_lossy().to_string()
}

/// valid names (other than `not`) whose natural directory (`layer`) / glif file name equals `file` IGNORING CASE:
/// the names that must be steered away from `file` once it is taken. Candidates are built from the stem of `file`
/// (as it is, lower-cased, upper-cased, with the `_` after capitals taken out, that lower-cased / upper-cased) and
/// kept only when norad's own naming function sends them there (seeded changes C07-r6-1/2, C01-r6-1)
pub fn reaching_names(file: &str, layer: bool) -> Vec<String> {
    let (pre, suf) = if layer { ("glyphs.", "") } else { ("", ".glif") };
    let stem = file.strip_prefix(pre).unwrap_or(file);
    let stem = stem.strip_suffix(suf).unwrap_or(stem);
    let mut unesc = String::new();
    let mut prev_upper = false;
    for c in stem.chars() {
        if c == '_' && prev_upper {
            prev_upper = false;
            continue;
        }
        prev_upper = c.is_uppercase();
        unesc.push(c);
    }
    let cands = [
        stem.to_string(),
        stem.to_lowercase(),
        stem.to_uppercase(),
        unesc.clone(),
        unesc.to_lowercase(),
        unesc.to_uppercase(),
    ];
    let want = file.to_lowercase();
    let mut out: Vec<String> = Vec::new();
    for c in cands {
        // no literal lower-case sigma: the driver's lower-casing is the per-character table (trusted base of C06: no
        // final sigma but the SIGMA_PAIR, whose two names lower-case alike either way); capital sigma against a
        // literal final sigma is the business of the C07 function-level check, which sends the true table
        if c.contains('\u{3c2}') || c.contains('\u{3c3}') {
            continue;
        }
        if c.len() < 100 && Name::new(&c).is_ok() && !out.contains(&c) && natural(&c, layer).to_lowercase() == want {
            out.push(c);
        }
    }
    out
}

/// every user string mentioned in an op token
fn op_names(op: &str) -> Vec<String> {
    let mut v = Vec::new();
    for part in op.split('.').skip(1) {
        for piece in part.split('+') {
            if piece.len() >= 2 && piece.len() % 2 == 0 && piece.chars().all(|c| c.is_ascii_hexdigit()) {
                if let Ok(s) = String::from_utf8(unhex(piece)) {
                    v.push(s);
                }
            }
        }
    }
    v
}

/// (layer name, directory, [(glyph, file)]) of a `load:` / `loadfN:` init token
fn tree_layers(init: &str) -> Vec<(String, String, Vec<(String, String)>)> {
    let mut v = Vec::new();
    if let Some((_, spec)) = init.split_once(':') {
        for layer in spec.split(';') {
            let p: Vec<&str> = layer.split('~').collect();
            if p.len() < 2 {
                continue;
            }
            let mut gs = Vec::new();
            if p.len() > 2 && !p[2].is_empty() {
                for gf in p[2].split('+') {
                    let mut it = gf.split('=');
                    if let (Some(g), Some(f)) = (it.next(), it.next()) {
                        gs.push((unhexs(g), unhexs(f)));
                    }
                }
            }
            v.push((unhexs(p[0]), unhexs(p[1]), gs));
        }
    }
    v
}

fn lc_table(names: &[String]) -> String {
    let mut set = BTreeSet::new();
    for n in names {
        for c in n.chars() {
            if !c.is_ascii() {
                let l: String = c.to_lowercase().collect();
                set.insert(format!("{}:{}:{}", hexs(&c.to_string()), hexs(&l), c.is_uppercase() as u8));
            }
        }
    }
    if set.is_empty() {
        "lc=".to_string()
    } else {
        format!("lc={}", set.into_iter().collect::<Vec<_>>().join(","))
    }
}

fn dump_state(font: &Font, names: &[String]) -> String {
    let mut layers = Vec::new();
    for l in font.layers.iter() {
        let mut glyphs: Vec<String> = l.iter().map(|g| g.name().to_string()).collect();
        glyphs.sort();
        let mut all: BTreeSet<String> = names.iter().cloned().collect();
        all.extend(glyphs.iter().cloned());
        let mut paths = Vec::new();
        for n in &all {
            if let Some(p) = l.get_path(n) {
                paths.push(format!("{}={}", hexs(n), hexs(&p.to_string_lossy())));
            }
        }
        layers.push(format!(
            "{}~{}~{}~{}",
            hexs(l.name()),
            hexs(&l.path().to_string_lossy()),
            glyphs.iter().map(|g| hexs(g)).collect::<Vec<_>>().join("+"),
            paths.join("+")
        ));
    }
    layers.join(";")
}

fn report(font: &Font) -> String {
    let mut layers = Vec::new();
    for l in font.layers.iter() {
        let mut glyphs: Vec<String> = l.iter().map(|g| g.name().to_string()).collect();
        glyphs.sort();
        layers.push(format!(
            "{}~{}~{}",
            hexs(l.name()),
            hexs(&l.path().to_string_lossy()),
            glyphs.iter().map(|g| hexs(g)).collect::<Vec<_>>().join("+")
        ));
    }
    layers.join(";")
}

fn naming(e: &norad::error::NamingError) -> &'static str {
    use norad::error::NamingError::*;
    match e {
        Duplicate(_) => "err:Duplicate",
        Missing(_) => "err:Missing",
        Invalid(_) => "err:Invalid",
        ReservedName => "err:Reserved",
        _ => "err:Other",
    }
}

fn unhexs(s: &str) -> String {
    String::from_utf8(unhex(s)).unwrap()
}

fn set_of(tok: &str) -> Vec<String> {
    if tok.is_empty() {
        Vec::new()
    } else {
        tok.split('+').map(unhexs).collect()
    }
}

/// apply one op token to the font; returns the result class
fn apply(font: &mut Font, op: &str) -> String {
    let f: Vec<&str> = op.split('.').collect();
    let r = guarded(|| -> String {
        match f[0] {
            "ig" | "rg" | "mg" | "cl" | "rt" | "eo" | "er" => {
                let li: usize = f[1].parse().unwrap();
                let layer = match font.layers.iter_mut().nth(li) {
                    Some(l) => l,
                    None => return "ok".into(),
                };
                match f[0] {
                    "ig" => {
                        layer.insert_glyph(Glyph::new(&unhexs(f[2])));
                        "ok".into()
                    }
                    "rg" => {
                        layer.remove_glyph(&unhexs(f[2]));
                        "ok".into()
                    }
                    "mg" => match layer.rename_glyph(&unhexs(f[2]), &unhexs(f[3]), f[4] == "1") {
                        Ok(()) => "ok".into(),
                        Err(e) => naming(&e).into(),
                    },
                    "cl" => {
                        layer.clear();
                        "ok".into()
                    }
                    "rt" => {
                        let keep = set_of(f.get(2).copied().unwrap_or(""));
                        layer.retain(|n, _| keep.iter().any(|k| k == n.as_str()));
                        "ok".into()
                    }
                    "eo" => {
                        let n = unhexs(f[2]);
                        layer.entry(Name::new(&n).unwrap()).or_insert_with(|| Glyph::new(&n));
                        "ok".into()
                    }
                    "er" => {
                        let n = unhexs(f[2]);
                        if let std::collections::btree_map::Entry::Occupied(e) = layer.entry(Name::new(&n).unwrap()) {
                            e.remove();
                        }
                        "ok".into()
                    }
                    _ => unreachable!(),
                }
            }
            "nl" => match font.layers.new_layer(&unhexs(f[1])) {
                Ok(_) => "ok".into(),
                Err(e) => naming(&e).into(),
            },
            "gc" => match font.layers.get_or_create_layer(&unhexs(f[1])) {
                Ok(_) => "ok".into(),
                Err(e) => naming(&e).into(),
            },
            "rl" => {
                font.layers.remove(&unhexs(f[1]));
                "ok".into()
            }
            "ml" => match font.layers.rename_layer(&unhexs(f[1]), &unhexs(f[2]), f[3] == "1") {
                Ok(()) => "ok".into(),
                Err(e) => naming(&e).into(),
            },
            "rs" => {
                let keep = set_of(f.get(1).copied().unwrap_or(""));
                font.layers.retain(|l| keep.iter().any(|k| k == l.name().as_str()));
                "ok".into()
            }
            "re" => {
                font.layers.remove_empty_layers();
                "ok".into()
            }
            _ => "bad-op".into(),
        }
    });
    match r {
        Ok(s) => s,
        Err(msg) => {
            if msg.contains("99 tries") {
                "panic:documented".into()
            } else {
                "panic:undocumented".into()
            }
        }
    }
}

fn write_tree(dir: &Path, spec: &str) {
    rm_rf(dir);
    std::fs::create_dir_all(dir).unwrap();
    std::fs::write(
        dir.join("metainfo.plist"),
        "<?xml version=\"1.0\" encoding=\"UTF-8\"?>\n<plist version=\"1.0\"><dict><key>creator</key><string>x</string><key>formatVersion</key><integer>3</integer></dict></plist>\n",
    )
    .unwrap();
    let esc = |s: &str| s.replace('&', "&amp;").replace('<', "&lt;").replace('>', "&gt;");
    let mut lc = String::from("<?xml version=\"1.0\" encoding=\"UTF-8\"?>\n<plist version=\"1.0\"><array>\n");
    for layer in spec.split(';') {
        let p: Vec<&str> = layer.split('~').collect();
        let (name, d) = (unhexs(p[0]), unhexs(p[1]));
        lc.push_str(&format!("<array><string>{}</string><string>{}</string></array>\n", esc(&name), esc(&d)));
        let ldir = dir.join(&d);
        if ldir.exists() {
            continue; // a directory listed twice: keep the first contents
        }
        std::fs::create_dir_all(&ldir).unwrap();
        let mut contents = String::from("<?xml version=\"1.0\" encoding=\"UTF-8\"?>\n<plist version=\"1.0\"><dict>\n");
        if p.len() > 2 && !p[2].is_empty() {
            for gf in p[2].split('+') {
                let mut it = gf.split('=');
                let (g, f) = (unhexs(it.next().unwrap()), unhexs(it.next().unwrap()));
                // optional third part: the `name` attribute written INSIDE the glif (a copied or renamed file);
                // the loader must take the glyph's name from the contents.plist key
                let inner = it.next().map(unhexs).unwrap_or_else(|| g.clone());
                contents.push_str(&format!("<key>{}</key><string>{}</string>\n", esc(&g), esc(&f)));
                std::fs::write(
                    ldir.join(&f),
                    format!("<?xml version=\"1.0\" encoding=\"UTF-8\"?>\n<glyph name=\"{}\" format=\"2\"></glyph>\n", esc(&inner).replace('"', "&quot;")),
                )
                .unwrap();
            }
        }
        contents.push_str("</dict></plist>\n");
        std::fs::write(ldir.join("contents.plist"), contents).unwrap();
    }
    lc.push_str("</array></plist>\n");
    std::fs::write(dir.join("layercontents.plist"), lc).unwrap();
}

/// run one history given its input tokens (after the model name); returns the observation string
pub fn observe(toks: &[&str], scratch: &Path) -> String {
    // toks[0] = lc table (recomputed by the driver from the line, ignored here), toks[1] = init, rest ops
    let init = toks[1];
    let mut names = pool();
    // names mentioned in ops extend the observation pool
    for op in &toks[2..] {
        names.extend(op_names(op));
    }
    let src = scratch.join("src.ufo");
    let mut font = if init == "new" {
        Font::new()
    } else {
        let (kind, spec) = init.split_once(':').unwrap();
        write_tree(&src, spec);
        let req = |k: &str| -> norad::DataRequest<'static> {
            match k {
                "loadf1" => norad::DataRequest::none().filter_layers(|_, _| true),
                "loadf2" => norad::DataRequest::none().default_layer(true).filter_layers(|n, _| n == "a"),
                "loadf3" => norad::DataRequest::none(),
                "loadf4" => norad::DataRequest::none().filter_layers(|n, _| n == "a" || n == "b"),
                "loadf5" => norad::DataRequest::all().default_layer(true),
                "loadf6" => norad::DataRequest::none().filter_layers(|_, p| p == std::path::Path::new("glyphs")),
                _ => norad::DataRequest::all(),
            }
        };
        match guarded(|| Font::load_requested_data(&src, req(kind))) {
            Ok(Ok(f)) => f,
            Ok(Err(_)) => return "init-err".to_string(),
            Err(_) => return "init-panic".to_string(),
        }
    };
    let mut out = Vec::new();
    out.push(format!("init@{}", dump_state(&font, &names)));
    for op in &toks[2..] {
        let r = apply(&mut font, op);
        out.push(format!("{}@{}", r, dump_state(&font, &names)));
    }
    // save, load back, report
    let dst = scratch.join("dst.ufo");
    rm_rf(&dst);
    let save = match guarded(|| font.save(&dst)) {
        Ok(Ok(())) => "ok".to_string(),
        Ok(Err(e)) => format!("err:{}", variant(&format!("{:?}", e))),
        Err(_) => "panic".to_string(),
    };
    let (load, rep) = if save == "ok" {
        match guarded(|| Font::load(&dst)) {
            Ok(Ok(f)) => ("ok".to_string(), report(&f)),
            Ok(Err(e)) => (format!("err:{}", variant(&format!("{:?}", e))), String::new()),
            Err(_) => ("panic".to_string(), String::new()),
        }
    } else {
        ("skipped".to_string(), String::new())
    };
    rm_rf(&dst);
    rm_rf(&src);
    format!("{} | save:{} load:{} r={}", out.join(" "), save, load, rep)
}

fn variant(dbg: &str) -> String {
    dbg.chars().take_while(|c| c.is_alphanumeric()).collect()
}

fn gen_tree(rng: &mut Rng, names: &[String], default_at: usize) -> String {
    // clean trees: distinct layer names, distinct directories ignoring case, exactly one `glyphs`
    let nl = if default_at < 3 { 1 + rng.below(3) } else { rng.below(4) };
    let dirs = [
        "glyphs.a", "glyphs.B_", "glyphs.y", "bg", "glyphs.public.default", "glyphs.q01", "glyphs.S_ketch", "glyphs.fore",
        "glyphs.\u{c9}_",
    ];
    let lnames = ["a", "b", "Y", "background", "q", "fore"];
    let default_name = if rng.chance(1, 3) { "fore2" } else { "public.default" };
    let mut layers: Vec<(String, String)> = Vec::new();
    let mut used_d = BTreeSet::new();
    let mut used_n = BTreeSet::new();
    for _ in 0..nl {
        let d = *rng.pick(&dirs);
        let n = *rng.pick(&lnames);
        if used_d.insert(d.to_lowercase()) && used_n.insert(n) {
            layers.push((n.to_string(), d.to_string()));
        }
    }
    // layercontents.plist may list the default layer anywhere (norad itself writes it first)
    let pos = match default_at {
        0 => 0,
        1 => (layers.len() + 1) / 2,
        2 => layers.len(),
        _ => rng.below(layers.len() + 1),
    };
    layers.insert(pos, (default_name.to_string(), "glyphs".to_string()));
    let mut out = Vec::new();
    for (n, d) in layers {
        let ng = rng.below(4);
        let mut gs = Vec::new();
        let mut used_f = BTreeSet::new();
        let mut used_g = BTreeSet::new();
        for _ in 0..ng {
            let g = rng.pick(names).clone();
            if g.len() > 100 || !used_g.insert(g.clone()) {
                continue;
            }
            // file name: norad's own choice, or a foreign one
            let f = if rng.chance(1, 3) {
                format!("foreign{}.glif", gs.len())
            } else {
                let taken: std::collections::HashSet<String> = used_f.iter().cloned().collect();
                norad::user_name_to_file_name(&g, "", ".glif", |p| !taken.contains(p)).to_string_lossy().to_string()
            };
            if !used_f.insert(f.to_lowercase()) {
                continue;
            }
            if rng.chance(1, 4) {
                // the glif's own name attribute disagrees with its key
                let other = if rng.chance(1, 2) { "a".to_string() } else { rng.pick(names).clone() };
                if other.len() < 100 {
                    gs.push(format!("{}={}={}", hexs(&g), hexs(&f), hexs(&other)));
                    continue;
                }
            }
            gs.push(format!("{}={}", hexs(&g), hexs(&f)));
        }
        out.push(format!("{}~{}~{}", hexs(&n), hexs(&d), gs.join("+")));
    }
    format!("load:{}", out.join(";"))
}

/// `xg` / `xl`: glyph / layer names that are always part of the history's sub-pools (for a loaded starting state: the
/// names that reach, ignoring case, a glif file / a directory of the tree, and the tree's own layer names)
fn gen_ops(
    rng: &mut Rng,
    len: usize,
    names: &[String],
    lnames: &[String],
    with_entry: bool,
    xg: &[String],
    xl: &[String],
) -> Vec<String> {
    let inval = invalid_pool();
    let mut ops = Vec::new();
    // names cluster: histories use a small sub-pool so that clashes and re-use are frequent
    let k = 3 + rng.below(4);
    let mut sub: Vec<String> = (0..k).map(|_| rng.pick(names).clone()).collect();
    sub.extend(xg.iter().cloned());
    let lk = 2 + rng.below(4);
    let mut lsub: Vec<String> = (0..lk).map(|_| rng.pick(lnames).clone()).collect();
    lsub.extend(xl.iter().cloned());
    let nm = |rng: &mut Rng| -> String { rng.pick(&sub).clone() };
    let ln = |rng: &mut Rng| -> String { rng.pick(&lsub).clone() };
    for _ in 0..len {
        let li = rng.below(3);
        let r = rng.below(if with_entry { 26 } else { 23 });
        let op = match r {
            0..=5 => format!("ig.{}.{}", li, hexs(&nm(rng))),
            6..=7 => format!("rg.{}.{}", li, hexs(&nm(rng))),
            8..=10 => {
                let bad = rng.chance(1, 8);
                let new = if bad { rng.pick(&inval).clone() } else { nm(rng) };
                let old = nm(rng);
                if bad && rng.chance(1, 2) {
                    // a rename refused for its INVALID new name must leave nothing behind: make sure `old` exists, and
                    // follow up with a name that wants the file of `old` (stale index / path set shows as a clash or a
                    // lost glyph at save)
                    ops.push(format!("ig.{}.{}", li, hexs(&old)));
                    ops.push(format!("mg.{}.{}.{}.{}", li, hexs(&old), hexs(&new), rng.below(2)));
                    let reach = reaching_names(&natural(&old, false), false);
                    let follow = if reach.is_empty() || rng.chance(1, 3) { old.clone() } else { rng.pick(&reach).clone() };
                    format!("ig.{}.{}", li, hexs(&follow))
                } else {
                    format!("mg.{}.{}.{}.{}", li, hexs(&old), hexs(&new), rng.below(2))
                }
            }
            11 => format!("cl.{}", li),
            12..=13 => {
                let keep: Vec<String> = sub.iter().filter(|_| rng.chance(1, 2)).map(|s| hexs(s)).collect();
                format!("rt.{}.{}", li, keep.join("+"))
            }
            14..=16 => {
                let n = if rng.chance(1, 8) { rng.pick(&inval).clone() } else { ln(rng) };
                format!("nl.{}", hexs(&n))
            }
            17 => format!("gc.{}", hexs(&ln(rng))),
            18 => format!("rl.{}", hexs(&ln(rng))),
            19..=21 => {
                let bad = rng.chance(1, 8);
                let new = if bad { rng.pick(&inval).clone() } else { ln(rng) };
                let old = ln(rng);
                if bad && rng.chance(1, 2) {
                    // same for layers: the refused rename must not release the directory of `old`
                    ops.push(format!("gc.{}", hexs(&old)));
                    ops.push(format!("ml.{}.{}.{}", hexs(&old), hexs(&new), rng.below(2)));
                    let reach = reaching_names(&natural(&old, true), true);
                    let follow = if reach.is_empty() { ln(rng) } else { rng.pick(&reach).clone() };
                    if rng.chance(1, 2) {
                        format!("nl.{}", hexs(&follow))
                    } else {
                        format!("ml.{}.{}.{}", hexs(&ln(rng)), hexs(&follow), rng.below(2))
                    }
                } else {
                    format!("ml.{}.{}.{}", hexs(&old), hexs(&new), rng.below(2))
                }
            }
            22 => {
                if rng.chance(1, 2) {
                    "re".to_string()
                } else {
                    let keep: Vec<String> = lsub.iter().filter(|_| rng.chance(1, 2)).map(|s| hexs(s)).collect();
                    format!("rs.{}", keep.join("+"))
                }
            }
            23..=24 => format!("eo.{}.{}", li, hexs(&nm(rng))),
            _ => format!("er.{}.{}", li, hexs(&nm(rng))),
        };
        ops.push(op);
    }
    ops
}

/// for a loaded starting state: the names that reach (ignoring case) a glif file of the tree / a directory of the
/// tree (EVERY listed layer, the first-listed one included), and the tree's own layer names
fn tree_extras(rng: &mut Rng, init: &str) -> (Vec<String>, Vec<String>) {
    let (mut xg, mut xl) = (Vec::new(), Vec::new());
    for (n, d, gs) in tree_layers(init) {
        xl.extend(reaching_names(&d, true));
        if rng.chance(1, 2) {
            xl.push(n);
        }
        for (_, f) in gs {
            if rng.chance(1, 2) {
                xg.extend(reaching_names(&f, false));
            }
        }
    }
    (xg, xl)
}

/// Load histories: trees whose default layer is listed at EVERY position (first, middle, last), followed by
/// new_layer / get_or_create_layer / rename_layer (of every other layer, both overwrite flags) with every name that
/// reaches, ignoring case, the directory of a loaded layer — every loaded layer, the first-listed one too — then a short
/// random tail. The rules are the ordinary ones (directories distinct ignoring case, the model's directory).
fn directed_loaded(rng: &mut Rng, tier: &str, out: &mut dyn Write, scratch: &Path, names: &[String], lnames: &[String]) {
    let others: [(&str, &str); 6] = [
        ("Sketch", "glyphs.S_ketch"),
        ("b", "glyphs.B_"),
        ("Y", "glyphs.y"),
        ("background", "glyphs.fore"),
        ("q", "glyphs.\u{c9}_"),
        ("fore", "bg"),
    ];
    let rounds = if tier == "thorough" { 6 } else { 1 };
    for round in 0..rounds {
        for k in 1..=3usize {
            for start in 0..others.len() {
                let chosen: Vec<(&str, &str)> = (0..k).map(|j| others[(start + j * (1 + round % 2)) % others.len()]).collect();
                if (0..k).any(|i| (0..i).any(|j| chosen[i].1 == chosen[j].1)) {
                    continue;
                }
                for pos in 0..=k {
                    let default_name = if (start + pos + round) % 3 == 0 { "fore2" } else { "public.default" };
                    let mut layers: Vec<(String, String)> = chosen.iter().map(|(n, d)| (n.to_string(), d.to_string())).collect();
                    layers.insert(pos, (default_name.to_string(), "glyphs".to_string()));
                    let spec: Vec<String> = layers
                        .iter()
                        .map(|(n, d)| {
                            let g = if rng.chance(1, 2) { format!("{}={}", hexs("a"), hexs("a.glif")) } else { String::new() };
                            format!("{}~{}~{}", hexs(n), hexs(d), g)
                        })
                        .collect();
                    let init = format!("load:{}", spec.join(";"));
                    let lnow: Vec<&String> = layers.iter().map(|(n, _)| n).collect();
                    for (_, d) in layers.iter() {
                        for n in reaching_names(d, true) {
                            if lnow.contains(&&n) {
                                continue;
                            }
                            let mut hs: Vec<Vec<String>> = vec![vec![format!("nl.{}", hexs(&n))], vec![format!("gc.{}", hexs(&n))]];
                            for (o, _) in layers.iter() {
                                hs.push(vec![format!("ml.{}.{}.{}", hexs(o), hexs(&n), rng.below(2))]);
                            }
                            for mut h in hs {
                                if rng.chance(1, 3) {
                                    let (xg, xl) = tree_extras(rng, &init);
                                    let tl = 1 + rng.below(4);
                                    h.extend(gen_ops(rng, tl, names, lnames, false, &xg, &xl));
                                }
                                emit(out, scratch, &init, &h);
                            }
                        }
                    }
                }
            }
        }
    }
}

/// `Layer::entry` next to `insert_glyph` / `rename_glyph`: a glyph created through the raw entry has no file name (the
/// recorded finding) UNTIL the same name goes through insert_glyph or becomes a rename target — from then on it must be
/// saved; a glyph removed through the raw entry leaves its index entry behind (recorded) until insert_glyph puts the
/// glyph back (seeded change C09-r6-2)
fn directed_entry(out: &mut dyn Write, scratch: &Path) {
    let tree = format!(
        "load:{}~{}~{}={};{}~{}~{}={}",
        hexs("b"), hexs("glyphs.B_"), hexs("a"), hexs("a.glif"),
        hexs("public.default"), hexs("glyphs"), hexs("a"), hexs("a.glif")
    );
    for init in ["new", tree.as_str()] {
        for li in 0..2usize {
            let pre: Vec<String> = if init == "new" && li == 1 { vec![format!("nl.{}", hexs("b"))] } else { Vec::new() };
            for (x, y) in [("a", "A_"), ("A_", "a"), ("con", "z"), ("\u{c9}", "\u{e9}_")] {
                let (x, y) = (hexs(x), hexs(y));
                let hist: Vec<Vec<String>> = vec![
                    vec![format!("eo.{}.{}", li, x), format!("ig.{}.{}", li, x)],
                    vec![format!("eo.{}.{}", li, x), format!("ig.{}.{}", li, y), format!("ig.{}.{}", li, x)],
                    vec![format!("eo.{}.{}", li, x), format!("eo.{}.{}", li, y), format!("ig.{}.{}", li, x)],
                    vec![format!("eo.{}.{}", li, x), format!("ig.{}.{}", li, x), format!("rg.{}.{}", li, x)],
                    vec![format!("ig.{}.{}", li, x), format!("er.{}.{}", li, x), format!("ig.{}.{}", li, x)],
                    vec![format!("ig.{}.{}", li, x), format!("er.{}.{}", li, x), format!("eo.{}.{}", li, x)],
                    vec![format!("ig.{}.{}", li, x), format!("er.{}.{}", li, x), format!("eo.{}.{}", li, x), format!("ig.{}.{}", li, x)],
                    vec![format!("ig.{}.{}", li, y), format!("eo.{}.{}", li, x), format!("mg.{}.{}.{}.1", li, y, x)],
                    vec![format!("ig.{}.{}", li, y), format!("eo.{}.{}", li, x), format!("mg.{}.{}.{}.0", li, y, x)],
                    vec![format!("eo.{}.{}", li, x), format!("mg.{}.{}.{}.0", li, x, y)],
                    vec![format!("eo.{}.{}", li, x), format!("mg.{}.{}.{}.1", li, x, x)],
                    vec![format!("eo.{}.{}", li, x), format!("rt.{}.{}", li, x), format!("ig.{}.{}", li, x)],
                    vec![format!("eo.{}.{}", li, x), format!("cl.{}", li), format!("ig.{}.{}", li, x)],
                ];
                for h in hist {
                    let mut ops = pre.clone();
                    ops.extend(h);
                    emit(out, scratch, init, &ops);
                }
            }
        }
    }
}

/// Renames refused for an INVALID new name (empty, control characters), glyphs and layers, both overwrite flags,
/// followed by what exposes state left behind: a name that wants the same file / directory ignoring case, the old name
/// again, a removal, and the final save + load (seeded changes C01-r6-1, C07-r6-1)
fn directed_refused(out: &mut dyn Write, scratch: &Path) {
    let tree = format!(
        "load:{}~{}~{}={};{}~{}~{}={};{}~{}~",
        hexs("Sketch"), hexs("glyphs.S_ketch"), hexs("A"), hexs("A_.glif"),
        hexs("public.default"), hexs("glyphs"), hexs("A"), hexs("A_.glif"),
        hexs("A"), hexs("glyphs.A_")
    );
    for inv in invalid_pool() {
        let inv = hexs(&inv);
        for ow in 0..2 {
            for x in ["A", "a", "Sketch", "con", "\u{c9}", "a."] {
                let gr = reaching_names(&natural(x, false), false);
                let lr = reaching_names(&natural(x, true), true);
                let x = hexs(x);
                for init in ["new", tree.as_str()] {
                    for li in 0..2usize {
                        let mut pre: Vec<String> = if init == "new" && li == 1 { vec![format!("nl.{}", hexs("b"))] } else { Vec::new() };
                        pre.push(format!("ig.{}.{}", li, x));
                        pre.push(format!("mg.{}.{}.{}.{}", li, x, inv, ow));
                        emit(out, scratch, init, &pre);
                        for r in gr.iter().map(|r| hexs(r)) {
                            let mut h = pre.clone();
                            h.push(format!("ig.{}.{}", li, r));
                            emit(out, scratch, init, &h);
                        }
                        let mut h = pre.clone();
                        h.push(format!("rg.{}.{}", li, x));
                        h.push(format!("ig.{}.{}", li, x));
                        emit(out, scratch, init, &h);
                    }
                    let pre = vec![format!("gc.{}", x), format!("ml.{}.{}.{}", x, inv, ow)];
                    emit(out, scratch, init, &pre);
                    for r in lr.iter().map(|r| hexs(r)) {
                        for follow in [
                            vec![format!("nl.{}", r)],
                            vec![format!("gc.{}", r)],
                            vec![format!("nl.{}", hexs("z")), format!("ml.{}.{}.{}", hexs("z"), r, ow)],
                            vec![format!("rl.{}", x), format!("nl.{}", r), format!("nl.{}", x)],
                        ] {
                            let mut h = pre.clone();
                            h.extend(follow);
                            emit(out, scratch, init, &h);
                        }
                    }
                }
            }
        }
    }
}

fn layer_name_pool() -> Vec<String> {
    [
        "a", "A", "a_", "b", "public.default", "fore", "fore2", "glyphs", "con", "background", "Y", "q", "\u{c9}",
        "a.", "A_01",
    ]
    .iter()
    .chain(CASE_PARTNERS[..4].iter())
    .map(|s| s.to_string())
    .collect()
}

fn emit(out: &mut dyn Write, scratch: &Path, init: &str, ops: &[String]) {
    let mut all = pool();
    all.extend(layer_name_pool());
    for o in ops {
        all.extend(op_names(o));
    }
    for (n, d, gs) in tree_layers(init) {
        all.push(n);
        all.push(d);
        for (g, f) in gs {
            all.push(g);
            all.push(f);
        }
    }
    let lc = lc_table(&all);
    let mut toks: Vec<&str> = vec![&lc, init];
    for o in ops {
        toks.push(o);
    }
    let obs = observe(&toks, scratch);
    writeln!(out, "C06 {} => {}", toks.join(" "), obs).unwrap();
}

pub fn gen(tier: &str, seed: u64, out: &mut dyn Write) {
    let scratch: PathBuf = scratch_root().join("c06");
    std::fs::create_dir_all(&scratch).unwrap();
    let names = pool();
    let lnames = layer_name_pool();
    let mut rng = Rng::new(seed);
    // exhaustive: all op sequences of length <= 3 (quick) / 4 (thorough) from a 9-operation alphabet on 2 names
    let a = hexs("a");
    let b = hexs("A_");
    let alphabet: Vec<String> = vec![
        format!("ig.0.{}", a),
        format!("ig.0.{}", b),
        format!("rg.0.{}", a),
        format!("mg.0.{}.{}.1", a, b),
        format!("mg.0.{}.{}.0", b, a),
        format!("rt.0.{}", b),
        format!("nl.{}", a),
        format!("ml.{}.{}.1", a, b),
        format!("ml.{}.{}.1", hexs("public.default"), a),
        format!("rl.{}", b),
        format!("ml.{}.{}.1", a, a),
        // the `entry` API next to the ordinary operations (recorded findings; everything else must still hold)
        format!("eo.0.{}", b),
        format!("er.0.{}", a),
    ];
    let max = if tier == "thorough" { 4 } else { 3 };
    for len in 0..=max {
        let mut idx = vec![0usize; len];
        loop {
            let ops: Vec<String> = idx.iter().map(|i| alphabet[*i].clone()).collect();
            emit(out, &scratch, "new", &ops);
            let mut k = len;
            let mut done = true;
            while k > 0 {
                k -= 1;
                idx[k] += 1;
                if idx[k] < alphabet.len() {
                    done = false;
                    break;
                }
                idx[k] = 0;
            }
            if done {
                break;
            }
        }
    }
    // random histories
    let n = if tier == "thorough" { 60_000 } else { 2_500 };
    let maxlen = if tier == "thorough" { 120 } else { 25 };
    for i in 0..n {
        let init = if rng.chance(1, 3) {
            // the default layer listed first / in the middle / last / anywhere
            let t = gen_tree(&mut rng, &names, i % 4);
            if rng.chance(1, 3) {
                // partial loads: custom layer filters, default-only, none
                t.replacen("load:", &format!("loadf{}:", 1 + rng.below(6)), 1)
            } else {
                t
            }
        } else {
            "new".to_string()
        };
        let len = 1 + rng.below(maxlen);
        // one history in eight exercises the `entry` API (recorded finding: it bypasses the index)
        let with_entry = i % 8 == 7;
        let (xg, xl) = tree_extras(&mut rng, &init);
        let ops = gen_ops(&mut rng, len, &names, &lnames, with_entry, &xg, &xl);
        emit(out, &scratch, &init, &ops);
    }
    directed_loaded(&mut rng, tier, out, &scratch, &names, &lnames);
    directed_entry(out, &scratch);
    directed_refused(out, &scratch);
    // directed: insert X, insert its case partner (both orders; glyphs and layers; with a removal in between)
    for pair in CASE_PARTNERS.chunks(2) {
        for (x, y) in [(pair[0], pair[1]), (pair[1], pair[0])] {
            let (x, y) = (hexs(x), hexs(y));
            emit(out, &scratch, "new", &[format!("ig.0.{}", x), format!("ig.0.{}", y)]);
            emit(out, &scratch, "new", &[format!("ig.0.{}", x), format!("ig.0.{}", y), format!("rg.0.{}", x), format!("ig.0.{}", x)]);
            emit(out, &scratch, "new", &[format!("nl.{}", x), format!("nl.{}", y)]);
            emit(out, &scratch, "new", &[format!("nl.{}", x), format!("ig.1.{}", x), format!("ig.1.{}", y)]);
        }
    }
    // directed: the two word-final capital sigma names, both orders, glyphs and layers
    for (x, y) in [(SIGMA_PAIR[0], SIGMA_PAIR[1]), (SIGMA_PAIR[1], SIGMA_PAIR[0])] {
        let (x, y) = (hexs(x), hexs(y));
        emit(out, &scratch, "new", &[format!("ig.0.{}", x), format!("ig.0.{}", y)]);
        emit(out, &scratch, "new", &[format!("nl.{}", x), format!("nl.{}", y)]);
        emit(out, &scratch, "new", &[format!("nl.{}", x), format!("ig.1.{}", x), format!("ig.1.{}", y), format!("rg.1.{}", x), format!("ig.1.{}", x)]);
    }
    // directed: 100, 101, 102 names mapping to one file name, glyphs and layers: the 101st is refused (documented
    // panic), no two entries ever share a file name
    for n in [100usize, 101, 102] {
        let g: Vec<String> = (0..n).map(|i| format!("ig.0.{}", hexs(&clash_name(i)))).collect();
        emit(out, &scratch, "new", &g);
        let l: Vec<String> = (0..n).map(|i| format!("nl.{}", hexs(&clash_name(i)))).collect();
        emit(out, &scratch, "new", &l);
    }
    rm_rf(&scratch);
}
