//! Shared by C08 / C09 / C17: abstract description of a `Font` for the save model, tree tokens,
//! sandbox snapshots, font and tree builders.
//!
//! font description tokens (see lean/Driver/FSFam.lean):
//!   v=<n> ib=<n> iv=<0|1> is=<0|1> ig=<id:lib,..> lib=<hexkey,..> g=<n> gv=<0|1> k=<n> fe=<n>
//!   L=<name~dir~info~gname=file=st+..;..>  D=<root>|<hexkey=cell+..>  I=<root>|<hexkey=cell+..>
//!   cell = n (not loaded) | e | l<tok>;  tok = p<fnv> (PNG signature) | n<fnv>
//! tree token: `-` or `path:d,path:f:<tok>,...` (paths relative to the sandbox, sorted)
use crate::common::*;
use norad::{Font, Glyph, Guideline, Line, Name};
use std::collections::BTreeMap;
use std::path::{Path, PathBuf};

pub const PNG: [u8; 8] = [137, 80, 78, 71, 13, 10, 26, 10];

pub fn tok(bytes: &[u8]) -> String {
    format!("{}{:x}", if bytes.starts_with(&PNG) { 'p' } else { 'n' }, fnv(bytes) & 0xffff_ffff)
}

pub fn png(tag: &str) -> Vec<u8> {
    let mut v = PNG.to_vec();
    v.extend_from_slice(tag.as_bytes());
    v
}

/// what the harness knows about the font beyond what the public getters show
#[derive(Clone, Default)]
pub struct Track {
    /// groups are valid (by construction; `validate_groups` is not public)
    pub gv_bad: bool,
    /// directory the font was loaded from, relative to the sandbox
    pub root: Option<String>,
    /// store entries inserted through the API (kind, key) -> token; all others are still lazy
    pub inserted: BTreeMap<(char, String), String>,
}

fn tokn(nonempty: bool) -> u32 {
    if nonempty {
        1
    } else {
        0
    }
}

pub fn describe(font: &Font, tr: &Track) -> String {
    let mut out = Vec::new();
    out.push(format!("v={}", font.meta.format_version as u8));
    let fi = &font.font_info;
    out.push(format!("ib={}", tokn(!fi.is_empty())));
    out.push(format!("iv={}", tokn(fi.validate().is_ok())));
    let mut sink = Vec::new();
    out.push(format!("is={}", tokn(plist::to_writer_xml(&mut sink, fi).is_ok())));
    let guides: Vec<String> = fi
        .guidelines
        .as_deref()
        .unwrap_or(&[])
        .iter()
        .map(|g| {
            format!(
                "{}:{}",
                g.identifier().map(|i| hexs(i.as_str())).unwrap_or("~".into()),
                if g.lib().is_some() { "1" } else { "~" }
            )
        })
        .collect();
    out.push(format!("ig={}", guides.join(",")));
    out.push(format!("lib={}", font.lib.keys().map(|k| hexs(k)).collect::<Vec<_>>().join(",")));
    out.push(format!("g={}", font.groups.len()));
    out.push(format!("gv={}", tokn(!tr.gv_bad)));
    out.push(format!("k={}", font.kerning.len()));
    out.push(format!("fe={}", font.features.len()));
    let mut layers = Vec::new();
    for l in font.layers.iter() {
        let mut entries = Vec::new();
        for g in l.iter() {
            // BTreeMap order of `glyphs` = order of `contents` (same key type) when the two are in step
            // file names and directories are spelled byte-exactly, like the tree tokens
            let file = l.get_path(g.name()).map(|p| esc_path(p));
            let st = if g.lib.contains_key("public.objectLibs") || g.encode_xml().is_err() { "b" } else { "o" };
            match file {
                Some(f) => entries.push(format!("{}={}={}", hexs(g.name()), hexs(&f), st)),
                None => {}
            }
        }
        layers.push(format!(
            "{}~{}~{}~{}",
            hexs(l.name()),
            hexs(&esc_path(l.path())),
            tokn(l.color.is_some() || !l.lib.is_empty()),
            entries.join("+")
        ));
    }
    out.push(format!("L={}", layers.join(";")));
    let root = tr.root.clone().unwrap_or("~".into());
    let cells = |kind: char, keys: Vec<&PathBuf>| -> String {
        keys.iter()
            .map(|k| {
                let ks = esc_path(k);
                let c = match tr.inserted.get(&(kind, ks.clone())) {
                    Some(t) => format!("l{}", t),
                    None => "n".to_string(),
                };
                format!("{}={}", hexs(&ks), c)
            })
            .collect::<Vec<_>>()
            .join("+")
    };
    out.push(format!("D={}|{}", root, cells('d', font.data.keys().collect())));
    out.push(format!("I={}|{}", root, cells('i', font.images.keys().collect())));
    out.join(" ")
}

/// sandbox snapshot as one token
/// protocol spelling of a path given as BYTES: ASCII letters, digits and `._-/` as they are, every other byte as `%XX`
/// (so that file names that are not valid UTF-8, or differ only in such bytes, stay distinct)
pub fn esc(bytes: &[u8]) -> String {
    let mut s = String::new();
    for &b in bytes {
        if b.is_ascii_alphanumeric() || b"._-/".contains(&b) {
            s.push(b as char);
        } else {
            s.push_str(&format!("%{:02X}", b));
        }
    }
    s
}

pub fn esc_path(p: &Path) -> String {
    use std::os::unix::ffi::OsStrExt;
    esc(p.as_os_str().as_bytes())
}

/// like `common::snapshot`, with the relative paths spelled by `esc` (byte-exact) and sorted by bytes
pub fn snapshot_b(root: &Path) -> Vec<(String, char, Vec<u8>)> {
    let mut out = Vec::new();
    fn walk(base: &Path, p: &Path, out: &mut Vec<(String, char, Vec<u8>)>) {
        let rel = esc_path(p.strip_prefix(base).unwrap());
        let md = match std::fs::symlink_metadata(p) {
            Ok(m) => m,
            Err(_) => return,
        };
        if md.file_type().is_symlink() {
            out.push((rel, 'l', esc_path(&std::fs::read_link(p).unwrap()).into_bytes()));
        } else if md.is_dir() {
            out.push((rel, 'd', Vec::new()));
            let mut names: Vec<_> = std::fs::read_dir(p).unwrap().map(|e| e.unwrap().path()).collect();
            names.sort();
            for n in names {
                walk(base, &n, out);
            }
        } else {
            out.push((rel, 'f', std::fs::read(p).unwrap_or_default()));
        }
    }
    if std::fs::symlink_metadata(root).is_ok() {
        walk(root, root, &mut out);
    }
    out
}

pub fn tree_token(sandbox: &Path) -> String {
    let snap = snapshot_b(sandbox);
    let mut parts = Vec::new();
    for (rel, kind, bytes) in snap {
        if rel.is_empty() {
            continue;
        }
        match kind {
            'd' => parts.push(format!("{}:d", rel)),
            'f' => parts.push(format!("{}:f:{}", rel, tok(&bytes))),
            _ => parts.push(format!("{}:l", rel)),
        }
    }
    if parts.is_empty() {
        "-".into()
    } else {
        parts.join(",")
    }
}

pub fn variant(dbg: &str) -> String {
    dbg.chars().take_while(|c| c.is_alphanumeric()).collect()
}

/// `wo`: 0 `Font::save`, 1 `save_with_options` (two spaces, single quotes), 2 `save_with_options` (default options)
pub fn save_result_opt(font: &Font, target: &Path, wo: u32) -> String {
    use norad::{QuoteChar, WriteOptions};
    let r = guarded(|| match wo {
        1 => font.save_with_options(target, &WriteOptions::default().indent(WriteOptions::SPACE, 2).quote_char(QuoteChar::Single)),
        2 => font.save_with_options(target, &WriteOptions::default()),
        _ => font.save(target),
    });
    match r {
        Ok(Ok(())) => "ok".to_string(),
        Ok(Err(e)) => format!("err:{}", variant(&format!("{:?}", e))),
        Err(_) => "panic".to_string(),
    }
}

/// boundary values of font-info rules other than the ones `make_invalid` uses (validity is observed by `describe`)
pub fn fontinfo_variant(f: &mut Font, n: u32) {
    let angle = |f: &mut Font, x: f64, d: f64| {
        let g = Guideline::new(Line::Angle { x, y: 0.0, degrees: d }, None, None, None);
        f.font_info.guidelines.get_or_insert_with(Default::default).push(g);
    };
    match n {
        1 => angle(f, 0.0, f64::INFINITY),
        2 => angle(f, 0.0, 360.000001),
        3 => {
            // all legal: the save must go through
            angle(f, 0.0, -0.0);
            angle(f, 0.0, 360.0);
            angle(f, 0.0, 0.0);
        }
        4 => angle(f, f64::NAN, 10.0),
        5 => f.font_info.open_type_os2_selection = Some(vec![0]),
        6 => f.font_info.open_type_os2_selection = Some(vec![7, 6]),
        7 => f.font_info.open_type_os2_family_class = Some(norad::fontinfo::Os2FamilyClass { class_id: 200, subclass_id: 0 }),
        8 => f.font_info.postscript_blue_values = Some(vec![1.0.into()]),
        9 => {
            let id = norad::Identifier::new("dup").unwrap();
            for _ in 0..2 {
                let g = Guideline::new(Line::Horizontal(1.0), None, None, Some(id.clone()));
                f.font_info.guidelines.get_or_insert_with(Default::default).push(g);
            }
        }
        10 => {
            let g = Guideline::new(Line::Vertical(f64::NAN), None, None, None);
            f.font_info.guidelines.get_or_insert_with(Default::default).push(g);
        }
        n if n >= 20 => {
            // an out-of-range angle (what the WRITER refuses) combined with every other guideline attribute and position:
            // n = 20 + 8 * angle + shape
            let a = [400.0, f64::NAN, -1e-9, f64::INFINITY][((n - 20) / 8) as usize % 4];
            let id = |s: &str| Some(norad::Identifier::new(s).unwrap());
            let nm = |s: &str| Some(Name::new(s).unwrap());
            let col = || Some(norad::Color::new(0.0, 1.0, 0.0, 1.0).unwrap());
            let bad = |name, color, ident| Guideline::new(Line::Angle { x: 1.0, y: 2.0, degrees: a }, name, color, ident);
            let good = |ident| Guideline::new(Line::Angle { x: 0.0, y: 0.0, degrees: 10.0 }, None, None, ident);
            let gs: Vec<Guideline> = match (n - 20) % 8 {
                0 => vec![bad(None, None, id("g1"))],
                1 => vec![bad(nm("n"), None, None)],
                2 => vec![bad(None, col(), None)],
                3 => vec![bad(nm("n"), col(), id("g1"))],
                4 => vec![good(id("a1")), bad(None, None, None)],
                5 => vec![bad(None, None, id("b1")), good(id("a1"))],
                6 => vec![good(id("a1")), bad(None, None, id("b1")), good(None)],
                _ => vec![good(None), good(id("a1")), bad(nm("last"), None, id("z9"))],
            };
            f.font_info.guidelines.get_or_insert_with(Default::default).extend(gs);
        }
        11 => f.font_info.open_type_head_created = Some("2020/01/01 24:00:00".into()),
        12 => f.font_info.open_type_head_created = Some("2020/12/31 23:59:59".into()),
        _ => {}
    }
}

/// other shapes of the groups rule; validity by construction (1-4 invalid, 5 valid)
pub fn groups_variant(f: &mut Font, tr: &mut Track, n: u32) {
    let nm = |s: &str| Name::new(s).unwrap();
    match n {
        1 => {
            f.groups.insert(nm("public.kern2.x"), vec![nm("q")]);
            f.groups.insert(nm("public.kern2.y"), vec![nm("q")]);
            tr.gv_bad = true;
        }
        2 => {
            f.groups.insert(nm("public.kern1."), vec![]);
            tr.gv_bad = true;
        }
        3 => {
            f.groups.insert(nm("public.kern2."), vec![nm("z")]);
            tr.gv_bad = true;
        }
        4 => {
            f.groups.insert(nm("public.kern1.twice"), vec![nm("q"), nm("q")]);
            tr.gv_bad = true;
        }
        5 => {
            f.groups.insert(nm("public.kern1.l"), vec![nm("q")]);
            f.groups.insert(nm("public.kern2.r"), vec![nm("q")]);
            f.groups.insert(nm("plain"), vec![nm("q"), nm("q")]);
        }
        _ => {}
    }
}

pub fn save_result(font: &Font, target: &Path) -> String {
    match guarded(|| font.save(target)) {
        Ok(Ok(())) => "ok".to_string(),
        Ok(Err(e)) => format!("err:{}", variant(&format!("{:?}", e))),
        Err(_) => "panic".to_string(),
    }
}

// ------------------------------------------------------------------ builders

/// a valid font built through the API; `rich` selects how many optional parts are non-empty
pub fn api_font(rich: u32, tr: &mut Track) -> Font {
    let mut f = Font::new();
    let l = f.default_layer_mut();
    l.insert_glyph(Glyph::new("a"));
    if rich & 1 != 0 {
        l.insert_glyph(Glyph::new("A"));
        l.insert_glyph(Glyph::new("b.alt"));
        f.lib.insert("com.test.k".into(), plist::Value::Integer(1.into()));
    }
    if rich & 2 != 0 {
        f.font_info.family_name = Some("Fam".into());
        let bg = f.layers.new_layer("background").unwrap();
        bg.insert_glyph(Glyph::new("a"));
        bg.lib.insert("x".into(), plist::Value::Boolean(true));
        f.groups.insert(Name::new("public.kern1.a").unwrap(), vec![Name::new("a").unwrap()]);
    }
    if rich & 4 != 0 {
        let mut m = BTreeMap::new();
        m.insert(Name::new("a").unwrap(), -10.0);
        f.kerning.insert(Name::new("a").unwrap(), m);
        f.features = "# fea\n".into();
        f.layers.new_layer("empty").unwrap();
    }
    if rich & 8 != 0 {
        ins(&mut f, tr, 'd', "a.txt", b"hello".to_vec());
        ins(&mut f, tr, 'd', "com.x/y/z.bin", vec![0, 1, 2]);
        ins(&mut f, tr, 'i', "i1.png", png("one"));
    }
    if rich & 16 != 0 {
        f.font_info.guidelines =
            Some(vec![Guideline::new(Line::Angle { x: 1.0, y: 2.0, degrees: 45.0 }, None, None, None)]);
    }
    f
}

pub fn ins(f: &mut Font, tr: &mut Track, kind: char, key: &str, bytes: Vec<u8>) -> bool {
    ins_b(f, tr, kind, key.as_bytes(), bytes)
}

/// insert under a key given as bytes (it need not be valid UTF-8)
pub fn ins_b(f: &mut Font, tr: &mut Track, kind: char, key: &[u8], bytes: Vec<u8>) -> bool {
    use std::os::unix::ffi::OsStrExt;
    let t = tok(&bytes);
    let path = PathBuf::from(std::ffi::OsStr::from_bytes(key));
    let r = if kind == 'd' { f.data.insert(path, bytes) } else { f.images.insert(path, bytes) };
    if r.is_ok() {
        tr.inserted.insert((kind, esc(key)), t);
    }
    r.is_ok()
}

pub fn del(f: &mut Font, tr: &mut Track, kind: char, key: &str) {
    if kind == 'd' {
        f.data.remove(Path::new(key));
    } else {
        f.images.remove(Path::new(key));
    }
    tr.inserted.remove(&(kind, esc(key.as_bytes())));
}

/// the five refusal kinds (bit set); `angle` = the guideline angle 400 (passes `validate`)
pub fn make_invalid(f: &mut Font, tr: &mut Track, kinds: u32) {
    if kinds & 1 != 0 {
        f.meta.format_version = if kinds & 64 != 0 { norad::FormatVersion::V1 } else { norad::FormatVersion::V2 };
    }
    if kinds & 2 != 0 {
        f.lib.insert("public.objectLibs".into(), plist::Value::Dictionary(Default::default()));
    }
    if kinds & 4 != 0 {
        f.groups.insert(Name::new("public.kern1.x").unwrap(), vec![Name::new("q").unwrap()]);
        f.groups.insert(Name::new("public.kern1.y").unwrap(), vec![Name::new("q").unwrap()]);
        tr.gv_bad = true;
    }
    if kinds & 8 != 0 {
        f.font_info.open_type_head_created = Some("2020/13/40 25:61:61".into());
    }
    if kinds & 32 != 0 {
        let g = Guideline::new(Line::Angle { x: 0.0, y: 0.0, degrees: 400.0 }, None, None, None);
        f.font_info.guidelines.get_or_insert_with(Default::default).push(g);
    }
    // angles a range test written with two comparisons would let through / boundary just below zero
    if kinds & 128 != 0 {
        let g = Guideline::new(Line::Angle { x: 0.0, y: 0.0, degrees: f64::NAN }, None, None, None);
        f.font_info.guidelines.get_or_insert_with(Default::default).push(g);
    }
    if kinds & 256 != 0 {
        let g = Guideline::new(Line::Angle { x: 0.0, y: 0.0, degrees: -1e-9 }, None, None, None);
        f.font_info.guidelines.get_or_insert_with(Default::default).push(g);
    }
}

/// write a UFO at `dir` (by norad itself from an API font) with data and images files added by hand
pub fn write_source_tree(dir: &Path, rich: u32, data: &[(&str, Vec<u8>)], images: &[(&str, Vec<u8>)]) {
    rm_rf(dir);
    let mut tr = Track::default();
    let f = api_font(rich & !8, &mut tr);
    f.save(dir).unwrap();
    for (k, b) in data {
        let p = dir.join("data").join(k);
        std::fs::create_dir_all(p.parent().unwrap()).unwrap();
        std::fs::write(p, b).unwrap();
    }
    for (k, b) in images {
        let p = dir.join("images").join(k);
        std::fs::create_dir_all(p.parent().unwrap()).unwrap();
        std::fs::write(p, b).unwrap();
    }
}

/// arrange the target path: 0 absent, 1 empty dir, 2 another larger UFO, 3 nested junk, 4 plain file,
/// 6 a symbolic link to a populated directory elsewhere in the sandbox
pub fn prepare_target(target: &Path, state: u32) {
    rm_rf(target);
    std::fs::create_dir_all(target.parent().unwrap()).unwrap();
    match state {
        0 => {}
        1 => std::fs::create_dir(target).unwrap(),
        2 => {
            let mut tr = Track::default();
            let mut f = api_font(31, &mut tr);
            f.layers.new_layer("zeta").unwrap().insert_glyph(Glyph::new("zz"));
            f.default_layer_mut().insert_glyph(Glyph::new("only.in.old"));
            ins(&mut f, &mut tr, 'd', "old/keep.txt", b"old".to_vec());
            ins(&mut f, &mut tr, 'i', "old.png", png("old"));
            f.save(target).unwrap();
        }
        3 => {
            std::fs::create_dir_all(target.join("junk/deep/er")).unwrap();
            std::fs::write(target.join("junk/deep/er/f.bin"), [1u8, 2, 3]).unwrap();
            std::fs::write(target.join("features.fea"), b"old fea").unwrap();
            std::fs::create_dir_all(target.join("glyphs.background")).unwrap();
            std::fs::write(target.join("glyphs.background/stale.glif"), b"stale").unwrap();
            std::fs::create_dir_all(target.join("images")).unwrap();
            std::fs::create_dir_all(target.join("data/x")).unwrap();
        }
        6 => {
            let real = target.parent().unwrap().parent().unwrap().join("real.d");
            rm_rf(&real);
            std::fs::create_dir_all(real.join("keep/deep")).unwrap();
            std::fs::write(real.join("precious.txt"), b"behind the link").unwrap();
            std::fs::write(real.join("keep/deep/x.bin"), [7u8; 9]).unwrap();
            std::fs::write(real.join("metainfo.plist"), b"old").unwrap();
            std::os::unix::fs::symlink("../real.d", target).unwrap();
        }
        _ => std::fs::write(target, b"i am a plain file").unwrap(),
    }
}
