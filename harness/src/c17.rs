//! C17: a partial load equals the full load restricted to what was requested.
//!
//! line: `C17 tree=<seed> extra=<0..3> sw=<0..63> shape=<0..7> => TREE=<tree> REQ=<request> |
//!          FULL=<res> <font description> | PART=<res> <font description> | GARB=<res> <font description>`
//!   sw bits: 1 lib, 2 groups, 4 kerning, 8 features, 16 data, 32 images
//!   shape: 0 all, 1 none, 2 default only, 3 by name, 4 by directory, 5 always true, 6 always false,
//!          10 everything but the default directory,
//!          7 default + by name, 8 always-false filter then layers(true), 9 layers(true) then default_layer(false)
//!   miss: bit set = that optional file / directory is absent (lib, fontinfo, groups, kerning, features, data/, images/, layerinfo)
//!   REQ = `<all><loadDefault><custom>` custom = `-` | `n<hexname>` | `d<hexdir>` | `t` | `f`
//!   TREE entries `path:d` / `path:f:<content token>` (tokens: see `Driver/C17.lean`)
//!   GARB: the same partial load after every file outside the read set was overwritten with garbage
//!   (un-selected layers lose their contents.plist, un-requested images/ gets a sub-directory, ...)
use crate::common::*;
use crate::fsfam::*;
use crate::rng::Rng;
use norad::{DataRequest, Font};
use std::collections::BTreeMap;
use std::io::Write;
use std::path::{Path, PathBuf};

const HDR: &str = "<?xml version=\"1.0\" encoding=\"UTF-8\"?>\n<plist version=\"1.0\">\n";

struct Tree {
    /// rel path -> (bytes, content token); directories are implied by the files plus `dirs`
    files: BTreeMap<String, (Vec<u8>, String)>,
    dirs: Vec<String>,
    layers: Vec<(String, String)>,
    /// symbolic links: rel path -> link text (only the garbage variants have any)
    links: Vec<(String, String)>,
}

fn plist_dict(entries: &[(String, String)]) -> String {
    let mut s = String::from(HDR);
    s.push_str("<dict>\n");
    for (k, v) in entries {
        s.push_str(&format!("<key>{}</key>{}\n", k, v));
    }
    s.push_str("</dict>\n</plist>\n");
    s
}

fn gen_tree(seed: u64, extra: usize, dpos: usize, up: bool) -> Tree {
    let mut rng = Rng::new(seed);
    let mut t = Tree { files: BTreeMap::new(), dirs: vec![], layers: vec![], links: vec![] };
    let mut put = |t: &mut Tree, p: &str, bytes: String, tok: String| {
        t.files.insert(p.to_string(), (bytes.into_bytes(), tok));
    };
    put(
        &mut t,
        "metainfo.plist",
        plist_dict(&[("creator".into(), "<string>x</string>".into()), ("formatVersion".into(), "<integer>3</integer>".into())]),
        "M3".into(),
    );
    // guidelines: some with identifiers, some of those with object libs in lib.plist
    let ng = rng.below(4);
    let mut gids: Vec<Option<String>> = Vec::new();
    let mut guides = String::from("<array>\n");
    for i in 0..ng {
        let id = if rng.chance(2, 3) { Some(format!("gid{}", i)) } else { None };
        guides.push_str(&format!(
            "<dict><key>x</key><integer>{}</integer>{}</dict>\n",
            i,
            id.as_ref().map(|s| format!("<key>identifier</key><string>{}</string>", s)).unwrap_or_default()
        ));
        gids.push(id);
    }
    guides.push_str("</array>");
    let mut fi = vec![("familyName".to_string(), "<string>Fam</string>".to_string())];
    if ng > 0 {
        fi.push(("guidelines".into(), guides));
    }
    put(
        &mut t,
        "fontinfo.plist",
        plist_dict(&fi),
        format!("N1;{}", gids.iter().map(|g| g.as_ref().map(|s| hexs(s)).unwrap_or("~".into())).collect::<Vec<_>>().join("+")),
    );
    // lib.plist with object libs for some of the identified guidelines (and one for nobody)
    let mut lib = vec![
        ("com.a".to_string(), "<integer>1</integer>".to_string()),
        ("com.b".to_string(), "<string>s</string>".to_string()),
        // a requested part REFERRING to a name in an (often un-requested) other part
        ("com.ref".to_string(), "<string>a.txt</string>".to_string()),
    ];
    let mut ol_ids: Vec<String> = Vec::new();
    for g in gids.iter().flatten() {
        if rng.chance(2, 3) {
            ol_ids.push(g.clone());
        }
    }
    if rng.chance(1, 3) {
        ol_ids.push("nobody".into());
    }
    let with_ol = !ol_ids.is_empty() || rng.chance(1, 4);
    if with_ol {
        let mut d = String::from("<dict>\n");
        for id in &ol_ids {
            d.push_str(&format!("<key>{}</key><dict><key>k</key><integer>1</integer></dict>\n", id));
        }
        d.push_str("</dict>");
        lib.push(("public.objectLibs".into(), d));
    }
    put(
        &mut t,
        "lib.plist",
        plist_dict(&lib),
        format!(
            "B{}{}",
            ["com.a", "com.b", "com.ref"].iter().map(|k| hexs(k)).collect::<Vec<_>>().join("+"),
            if with_ol { format!(";O{}", ol_ids.iter().map(|s| hexs(s)).collect::<Vec<_>>().join("+")) } else { String::new() }
        ),
    );
    let ngr = 1 + rng.below(3);
    let groups: Vec<(String, String)> =
        (0..ngr).map(|i| (format!("public.kern1.g{}", i), format!("<array><string>m{}</string></array>", i))).collect();
    put(&mut t, "groups.plist", plist_dict(&groups), format!("G{}", ngr));
    let nk = 1 + rng.below(3);
    let kern: Vec<(String, String)> =
        (0..nk).map(|i| (format!("k{}", i), "<dict><key>b</key><integer>-5</integer></dict>".to_string())).collect();
    put(&mut t, "kerning.plist", plist_dict(&kern), format!("K{}", nk));
    let fea = "# features\n".repeat(1 + rng.below(3));
    put(&mut t, "features.fea", fea.clone(), format!("F{}", fea.len()));
    // layers
    let pool = [("background", "glyphs.background"), ("Sketch", "glyphs.S_ketch"), ("b", "glyphs.b"), ("x y", "glyphs.x y")];
    let mut layers: Vec<(String, String)> = Vec::new();
    let start = rng.below(pool.len());
    for i in 0..extra {
        if i < pool.len() {
            let (n, d) = pool[(start + i) % pool.len()];
            layers.push((n.to_string(), d.to_string()));
        } else {
            layers.push((format!("L{}", i), format!("glyphs.L{}", i)));
        }
    }
    if up && !layers.is_empty() {
        // a directory that differs from the default layer's only by case
        layers[0] = ("Upper".to_string(), "GLYPHS".to_string());
    }
    let dname = if rng.chance(1, 3) { "foreground" } else { "public.default" };
    // position of the default layer in layercontents.plist: 0 random, 1 last, 2 in the middle
    let rpos = rng.below(layers.len() + 1);
    let pos = match dpos {
        1 => layers.len(),
        2 => layers.len() / 2 + layers.len() % 2,
        3 => 0,
        _ => rpos,
    };
    layers.insert(pos.min(layers.len()), (dname.to_string(), "glyphs".to_string()));
    let mut lc = String::from(HDR);
    lc.push_str("<array>\n");
    for (n, d) in &layers {
        lc.push_str(&format!("<array><string>{}</string><string>{}</string></array>\n", n, d));
    }
    lc.push_str("</array>\n</plist>\n");
    put(
        &mut t,
        "layercontents.plist",
        lc,
        // directories and file names are spelled like `fsfam::describe` spells them (`esc`: byte-exact, `%XX` outside [A-Za-z0-9._-/])
        format!("C{}", layers.iter().map(|(n, d)| format!("{}={}", hexs(n), hexs(&esc(d.as_bytes())))).collect::<Vec<_>>().join("+")),
    );
    for (li, (_, d)) in layers.iter().enumerate() {
        // many-layer trees stay small: only the first few layers have glyphs
        let ngl = if li < 5 { rng.below(4) } else { 0 };
        let mut names: Vec<String> = (0..ngl).map(|i| format!("{}{}", ["a", "B", "c.alt", "d"][i], li)).collect();
        names.sort();
        let mut entries = Vec::new();
        let mut toks = Vec::new();
        for n in &names {
            let file = norad::user_name_to_file_name(n, "", ".glif", |_| true).to_string_lossy().to_string();
            entries.push((n.clone(), format!("<string>{}</string>", file)));
            toks.push(format!("{}={}", hexs(n), hexs(&esc(file.as_bytes()))));
            put(
                &mut t,
                &format!("{}/{}", d, file),
                format!("<?xml version=\"1.0\" encoding=\"UTF-8\"?>\n<glyph name=\"{}\" format=\"2\"><advance width=\"5\"/><image fileName=\"i1.png\"/></glyph>\n", n),
                "X1".into(),
            );
        }
        put(&mut t, &format!("{}/contents.plist", d), plist_dict(&entries), format!("O{}", toks.join("+")));
        if rng.chance(2, 3) {
            put(
                &mut t,
                &format!("{}/layerinfo.plist", d),
                plist_dict(&[("color".into(), "<string>1,0,0,1</string>".into())]),
                "Y1".into(),
            );
        }
    }
    t.layers = layers;
    // stores
    for (k, b) in [("a.txt", "A"), ("d/e.txt", "E"), ("d/f/g.bin", "G")].iter().take(1 + rng.below(3)) {
        put(&mut t, &format!("data/{}", k), b.to_string(), "R".into());
    }
    for k in ["i1.png", "i2.png"].iter().take(1 + rng.below(2)) {
        t.files.insert(format!("images/{}", k), (png(k), "R".into()));
    }
    t
}

fn write_tree(dir: &Path, t: &Tree) {
    rm_rf(dir);
    std::fs::create_dir_all(dir).unwrap();
    for d in &t.dirs {
        std::fs::create_dir_all(dir.join(d)).unwrap();
    }
    for (p, (bytes, _)) in &t.files {
        let path = dir.join(p);
        std::fs::create_dir_all(path.parent().unwrap()).unwrap();
        std::fs::write(path, bytes).unwrap();
    }
    for (p, target) in &t.links {
        let path = dir.join(p);
        std::fs::create_dir_all(path.parent().unwrap()).unwrap();
        std::os::unix::fs::symlink(target, path).unwrap();
    }
}

fn tree_tok(t: &Tree) -> String {
    let mut dirs: std::collections::BTreeSet<String> = t.dirs.iter().cloned().collect();
    for p in t.files.keys() {
        let mut cur = Path::new(p).parent();
        while let Some(c) = cur {
            if c.as_os_str().is_empty() {
                break;
            }
            dirs.insert(c.to_string_lossy().to_string());
            cur = c.parent();
        }
    }
    let mut parts: Vec<String> = dirs.iter().map(|d| format!("{}:d", hexs(&esc(d.as_bytes())))).collect();
    for (p, (_, tok)) in &t.files {
        parts.push(format!("{}:f:{}", hexs(&esc(p.as_bytes())), tok));
    }
    for (p, _) in &t.links {
        parts.push(format!("{}:l", hexs(&esc(p.as_bytes()))));
    }
    parts.join(",")
}

/// A request as a SEQUENCE of builder calls, applied in order:
///   start  `A` all() | `N` none() | `Df` default()
///   layers `L1`/`L0` layers(b), `D1`/`D0` default_layer(b), `Fn` filter by name, `Fd` by directory, `Ft` always true,
///          `Ff` always false, `Fx` every directory but `glyphs`
///   parts  `l` lib, `g` groups, `k` kerning, `f` features, `a` data, `i` images, each followed by `1`/`0`
/// `sw`, `all`, `ld`, `custom` are what the DOCUMENTED meaning of each call, applied in order, leaves behind (the
/// harness's own small interpreter: `layers(b)` sets "all layers" to b; `default_layer(b)` sets "the default layer" to b
/// and switches "all layers" off; `filter_layers(p)` installs p and switches "all layers" off; nothing else is touched).
struct Req {
    calls: Vec<String>,
    sw: u32,
    all: bool,
    ld: bool,
    custom: Option<char>,
    name: String,
    dir: String,
}

const PARTS: [char; 6] = ['l', 'g', 'k', 'f', 'a', 'i'];

impl Req {
    fn from_calls(calls: Vec<String>, name: String, dir: String) -> Req {
        let mut r = Req { calls: calls.clone(), sw: 0, all: false, ld: false, custom: None, name, dir };
        for c in &calls {
            let b = c.ends_with('1');
            let k = c.chars().next().unwrap();
            match c.as_str() {
                "A" | "Df" => {
                    r.sw = 63;
                    r.all = true;
                    r.ld = false;
                    r.custom = None;
                }
                "N" => {
                    r.sw = 0;
                    r.all = false;
                    r.ld = false;
                    r.custom = None;
                }
                "L1" | "L0" => r.all = b,
                "D1" | "D0" => {
                    r.ld = b;
                    r.all = false;
                }
                _ if k == 'F' => {
                    r.custom = c.chars().nth(1);
                    r.all = false;
                }
                _ => {
                    if let Some(bit) = PARTS.iter().position(|p| *p == k) {
                        if b {
                            r.sw |= 1 << bit;
                        } else {
                            r.sw &= !(1 << bit);
                        }
                    }
                }
            }
        }
        r
    }
    /// the older recipes (`sw` + `shape`) as call sequences
    fn from_shape(sw: u32, shape: u32, name: String, dir: String) -> Req {
        let mut calls = vec!["N".to_string()];
        for (bit, p) in PARTS.iter().enumerate() {
            calls.push(format!("{}{}", p, if sw & (1 << bit) != 0 { 1 } else { 0 }));
        }
        let tail: &[&str] = match shape {
            0 => &["L1"],
            1 => &["L0"],
            2 => &["D1"],
            3 => &["Fn"],
            4 => &["Fd"],
            5 => &["Ft"],
            6 => &["Ff"],
            7 => &["D1", "Fn"],
            8 => &["Ff", "L1"],
            9 => &["L1", "D0"],
            _ => &["Fx"],
        };
        calls.extend(tail.iter().map(|s| s.to_string()));
        Req::from_calls(calls, name, dir)
    }
    fn build(&self) -> DataRequest<'_> {
        let mut r = DataRequest::none();
        for c in &self.calls {
            let b = c.ends_with('1');
            let name = self.name.clone();
            let dir = self.dir.clone();
            r = match c.as_str() {
                "A" => DataRequest::all(),
                "N" => DataRequest::none(),
                "Df" => DataRequest::default(),
                "L1" | "L0" => r.layers(b),
                "D1" | "D0" => r.default_layer(b),
                "Fn" => r.filter_layers(move |n, _| n == name),
                "Fd" => r.filter_layers(move |_, p| p == Path::new(&dir)),
                "Ft" => r.filter_layers(|_, _| true),
                "Ff" => r.filter_layers(|_, _| false),
                "Fx" => r.filter_layers(|_, p| p != Path::new("glyphs")),
                "l1" | "l0" => r.lib(b),
                "g1" | "g0" => r.groups(b),
                "k1" | "k0" => r.kerning(b),
                "f1" | "f0" => r.features(b),
                "a1" | "a0" => r.data(b),
                "i1" | "i0" => r.images(b),
                _ => r,
            };
        }
        r
    }
    fn token(&self) -> String {
        let custom = match self.custom {
            Some('n') => format!("n{}", hexs(&self.name)),
            Some('d') => format!("d{}", hexs(&esc(self.dir.as_bytes()))),
            Some(c) => c.to_string(),
            None => "-".into(),
        };
        format!("{}{}{}", self.all as u8, self.ld as u8, custom)
    }
    /// the harness's own reading of "selected" (used only to decide what to overwrite with garbage)
    fn selects(&self, n: &str, d: &str) -> bool {
        self.all
            || (self.ld && d == "glyphs")
            || match self.custom {
                Some('n') => n == self.name,
                Some('d') => d == self.dir,
                Some('t') => true,
                Some('x') => d != "glyphs",
                _ => false,
            }
    }
}

fn garbage(t: &Tree, r: &Req, gk: u32) -> Tree {
    let mut g = Tree { files: t.files.clone(), dirs: t.dirs.clone(), layers: t.layers.clone(), links: vec![] };
    let junk = |g: &mut Tree, p: &str| {
        if g.files.contains_key(p) {
            g.files.insert(p.to_string(), (b"\x00\xff<not a plist".to_vec(), "Z".into()));
        }
    };
    if r.sw & 1 == 0 {
        junk(&mut g, "lib.plist");
    }
    if r.sw & 2 == 0 {
        junk(&mut g, "groups.plist");
    }
    if r.sw & 4 == 0 {
        junk(&mut g, "kerning.plist");
    }
    if r.sw & 8 == 0 {
        g.files.insert("features.fea".into(), (vec![0xff, 0xfe, 0x00], "Z".into()));
    }
    // store file contents are never read by a load
    let keys: Vec<String> = g.files.keys().filter(|k| k.starts_with("data/") || k.starts_with("images/")).cloned().collect();
    for k in keys {
        g.files.insert(k, (b"garbage".to_vec(), "R".into()));
    }
    if r.sw & 32 == 0 {
        g.dirs.push("images/subdir".into());
    }
    for (n, d) in &t.layers {
        if !r.selects(n, d) {
            let keys: Vec<String> = g.files.keys().filter(|k| k.starts_with(&format!("{}/", d))).cloned().collect();
            for k in keys {
                if k.ends_with("contents.plist") && fnv(k.as_bytes()) % 2 == 0 {
                    g.files.remove(&k);
                    g.dirs.push(d.clone());
                } else {
                    junk(&mut g, &k);
                }
            }
        }
    }
    // round 5: damage of another KIND - the entry itself changes kind, at exactly the names the requested parts refer
    // to (image fileName of the glyphs, the data file named in the lib) and at the files / directories of un-selected
    // layers: 1 file -> directory, 2 file -> dangling symlink, 3 file -> symlink loop, 4 directory -> plain file
    if gk != 0 {
        let mut victims: Vec<String> = Vec::new();
        let mut victim_dirs: Vec<String> = Vec::new();
        if r.sw & 32 == 0 {
            victims.extend(g.files.keys().filter(|k| k.starts_with("images/")).cloned());
            victim_dirs.push("images".into());
        }
        if r.sw & 16 == 0 {
            victims.extend(g.files.keys().filter(|k| k.as_str() == "data/a.txt").cloned());
            victim_dirs.push("data".into());
        }
        for (n, d) in &t.layers {
            if !r.selects(n, d) {
                victims.extend(g.files.keys().filter(|k| k.starts_with(&format!("{}/", d)) && k.ends_with(".glif")).cloned());
                victim_dirs.push(d.clone());
            }
        }
        match gk {
            1 | 2 | 3 => {
                for v in victims {
                    g.files.remove(&v);
                    match gk {
                        1 => g.dirs.push(v),
                        2 => g.links.push((v, "nowhere/missing".into())),
                        _ => {
                            let own = v.rsplit('/').next().unwrap().to_string();
                            g.links.push((v, own));
                        }
                    }
                }
            }
            _ => {
                for d in victim_dirs {
                    let below = format!("{}/", d);
                    g.files.retain(|k, _| !k.starts_with(&below));
                    g.dirs.retain(|k| k != &d && !k.starts_with(&below));
                    g.files.insert(d, (b"a plain file where a directory was".to_vec(), "R".into()));
                }
            }
        }
    }
    g
}

fn load_desc(dir: &Path, r: Option<&Req>) -> String {
    let res = guarded(|| match r {
        Some(r) => Font::load_requested_data(dir, r.build()),
        None => Font::load(dir),
    });
    match res {
        Ok(Ok(f)) => {
            let tr = Track { root: Some("t".into()), ..Default::default() };
            format!("ok {}", describe(&f, &tr))
        }
        Ok(Err(e)) => format!("err:{}", variant(&format!("{:?}", e))),
        Err(_) => "panic".to_string(),
    }
}

fn field<'a>(toks: &'a [&'a str], key: &str) -> &'a str {
    for t in toks {
        if let Some(v) = t.strip_prefix(key).and_then(|r| r.strip_prefix('=')) {
            return v;
        }
    }
    ""
}

pub fn observe(toks: &[&str], scratch: &Path) -> String {
    let seed: u64 = field(toks, "tree").parse().unwrap_or(0);
    let extra: usize = field(toks, "extra").parse().unwrap_or(0);
    let sw: u32 = field(toks, "sw").parse().unwrap_or(0);
    let shape: u32 = field(toks, "shape").parse().unwrap_or(0);
    let pick: usize = field(toks, "pick").parse().unwrap_or(0);
    let dpos: usize = field(toks, "dpos").parse().unwrap_or(0);
    let up = field(toks, "up") == "1";
    let mut t = gen_tree(seed, extra, dpos, up);
    // optional files that are simply absent (bit set): lib, fontinfo, groups, kerning, features, data/, images/,
    // every layerinfo.plist
    let miss: u32 = field(toks, "miss").parse().unwrap_or(0);
    for (bit, name) in ["lib.plist", "fontinfo.plist", "groups.plist", "kerning.plist", "features.fea"].iter().enumerate() {
        if miss & (1 << bit) != 0 {
            t.files.remove(*name);
        }
    }
    if miss & 32 != 0 {
        t.files.retain(|k, _| !k.starts_with("data/"));
    }
    if miss & 64 != 0 {
        t.files.retain(|k, _| !k.starts_with("images/"));
    }
    if miss & 128 != 0 {
        t.files.retain(|k, _| !k.ends_with("layerinfo.plist"));
    }
    let (name, dir) = t.layers[pick % t.layers.len()].clone();
    let seq = field(toks, "seq");
    let req = if seq.is_empty() {
        Req::from_shape(sw, shape, name, dir)
    } else {
        Req::from_calls(seq.split('.').map(|c| c.to_string()).collect(), name, dir)
    };
    let dir_intact: PathBuf = scratch.join("t");
    write_tree(&dir_intact, &t);
    let full = load_desc(&dir_intact, None);
    let part = load_desc(&dir_intact, Some(&req));
    let g = garbage(&t, &req, field(toks, "gk").parse().unwrap_or(0));
    write_tree(&dir_intact, &g);
    let garb = load_desc(&dir_intact, Some(&req));
    rm_rf(&dir_intact);
    format!(
        "TREE={} GTREE={} REQ={} SW={} | FULL={} | PART={} | GARB={}",
        tree_tok(&t),
        tree_tok(&g),
        req.token(),
        req.sw,
        full,
        part,
        garb
    )
}

pub fn gen(tier: &str, seed: u64, out: &mut dyn Write) {
    let scratch: PathBuf = scratch_root().join("c17");
    std::fs::create_dir_all(&scratch).unwrap();
    let mut rng = Rng::new(seed);
    let trees = if tier == "thorough" { 60 } else { 6 };
    for ti in 0..trees {
        let tseed = rng.next() % 1_000_000;
        let extra = ti % 4;
        let pick = rng.below(4);
        for sw in 0..64 {
            for shape in 0..11 {
                // trees 0-3: every optional file present; later trees: some of them absent
                let miss = [0u32, 0, 0, 0, 0b0011111, 0b11100010, 0b01010101, 0b10101010][ti % 8];
                // layer order and case: default last / in the middle with 2-3 other layers, a `GLYPHS` directory
                let dpos = [0usize, 0, 1, 2, 0, 1][ti % 6];
                let up = [0u32, 1, 0, 1, 0, 1][ti % 6];
                let recipe = format!(
                    "tree={} extra={} sw={} shape={} pick={} miss={} dpos={} up={}",
                    tseed, extra, sw, shape, pick, miss, dpos, up
                );
                let toks: Vec<&str> = recipe.split(' ').collect();
                let obs = observe(&toks, &scratch);
                writeln!(out, "C17 {} => {}", recipe, obs).unwrap();
            }
        }
    }
    // round 4: builder-call SEQUENCES (every sequence of 2 and 3 layer calls after all() and none(), repeated and
    // contradicting calls included, plus sequences with part switches toggled back and forth) on a tree whose default
    // layer is listed last; the expected request is what the documented meaning of each call, applied in order, gives
    let lcalls = ["L1", "L0", "D1", "D0", "Fn", "Fx", "Ff", "Ft"];
    let tseed = rng.next() % 1_000_000;
    let mut seqs: Vec<String> = Vec::new();
    for start in ["A", "N"] {
        for a in lcalls {
            for b in lcalls {
                seqs.push(format!("{}.{}.{}", start, a, b));
                for c in lcalls {
                    seqs.push(format!("{}.{}.{}.{}", start, a, b, c));
                }
            }
        }
    }
    for _ in 0..60 {
        let mut q = vec![(*rng.pick(&["A", "N", "Df"])).to_string()];
        for _ in 0..(2 + rng.below(4)) {
            if rng.chance(1, 2) {
                q.push(format!("{}{}", *rng.pick(&["l", "g", "k", "f", "a", "i"]), rng.below(2)));
            } else {
                q.push((*rng.pick(&lcalls)).to_string());
            }
        }
        seqs.push(q.join("."));
    }
    for q in &seqs {
        let recipe = format!("tree={} extra=3 sw=0 shape=0 pick=1 miss=0 dpos=1 up=0 seq={}", tseed, q);
        let toks: Vec<&str> = recipe.split(' ').collect();
        let obs = observe(&toks, &scratch);
        writeln!(out, "C17 {} => {}", recipe, obs).unwrap();
    }
    // round 5: entry-KIND damage of un-requested parts at the names requested parts refer to
    for gk in 1..=4u32 {
        for ti in 0..2 {
            let tseed2 = rng.next() % 1_000_000;
            for &sw in &[0u32, 1, 16, 32, 47, 31, 15, 63] {
                for q in ["L1", "D1", "Fn", "Fx"] {
                    let mut calls = vec!["N".to_string()];
                    for (bit, p) in ["l", "g", "k", "f", "a", "i"].iter().enumerate() {
                        calls.push(format!("{}{}", p, if sw & (1 << bit) != 0 { 1 } else { 0 }));
                    }
                    calls.push(q.to_string());
                    let recipe = format!(
                        "tree={} extra={} sw=0 shape=0 pick=1 miss=0 dpos={} up=0 gk={} seq={}",
                        tseed2, 2 + ti, ti, gk, calls.join(".")
                    );
                    let toks: Vec<&str> = recipe.split(' ').collect();
                    let obs = observe(&toks, &scratch);
                    writeln!(out, "C17 {} => {}", recipe, obs).unwrap();
                }
            }
        }
    }
    // layer COUNTS around the thresholds of the standard sorting routines, default layer first / in the middle / last,
    // full and partial loads (order is compared)
    for &extra in &[0usize, 1, 2, 19, 20, 21, 22, 31, 32, 33, 34, 49, 64, 70] {
        for dpos in [3usize, 2, 1] {
            for q in ["A", "N.Fx", "A.Fx", "N.Ft", "N.D1", "A.Ft.D0"] {
                let recipe = format!("tree={} extra={} sw=0 shape=0 pick=1 miss=0 dpos={} up=0 seq={}", tseed, extra, dpos, q);
                let toks: Vec<&str> = recipe.split(' ').collect();
                let obs = observe(&toks, &scratch);
                writeln!(out, "C17 {} => {}", recipe, obs).unwrap();
            }
        }
    }
    rm_rf(&scratch);
}
