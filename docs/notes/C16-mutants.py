import subprocess, sys, os, re
MUT='/tmp/rw/c16-mut'
VW='/tmp/vw/c16'
DS='src/datastore.rs'
FT='src/font.rs'
muts = [
 ("M01-data-absolute-check-dropped", DS,
  """        if path.is_absolute() {
            return Err(StoreError::PathIsAbsolute);
        }
        for ancestor""", """        for ancestor"""),
 ("M02-image-empty-check-dropped", DS,
  """        if path.as_os_str().is_empty() {
            return Err(StoreError::EmptyPath);
        }
        if path.is_absolute() {
            return Err(StoreError::PathIsAbsolute);
        }
        if path.parent()""", """        if path.is_absolute() {
            return Err(StoreError::PathIsAbsolute);
        }
        if path.parent()"""),
 ("M03-validate-after-mutation", DS,
  """        self.impl_type.validate_entry(&path, &self.items, &data)?;
        self.items.insert(path, RefCell::new(Item::Loaded(data.into())));
        Ok(())""", """        let had = self.items.contains_key(&path);
        let data: Arc<[u8]> = data.into();
        self.items.insert(path.clone(), RefCell::new(Item::Loaded(data.clone())));
        if let Err(e) = self.impl_type.validate_entry(&path, &self.items, &data) {
            if !had && data.is_empty() {
                self.items.remove(&path);
            }
            return Err(e);
        }
        Ok(())"""),
 ("M04-png-signature-4-bytes", DS,
  "if !data.starts_with(&[137u8, 80, 78, 71, 13, 10, 26, 10]) {", "if !data.starts_with(&[137u8, 80, 78, 71]) {"),
 ("M05-lazy-load-not-validated", DS,
  """            Ok(data) => match impl_type.validate_entry(path, items, &data) {
                Ok(_) => Item::Loaded(data.into()),
                Err(e) => Item::Error(e),
            },""", """            Ok(data) => {
                let _ = items;
                Item::Loaded(data.into())
            }"""),
 ("M06-eager-load", DS,
  """        Ok(Store { items, ufo_root: ufo_root.to_path_buf(), impl_type })""",
  """        let store = Store { items, ufo_root: ufo_root.to_path_buf(), impl_type };
        for _ in store.iter() {}
        Ok(store)"""),
 ("M07-errors-not-cached", DS,
  "if matches!(*cell.borrow(), Item::NotLoaded) {", "if matches!(*cell.borrow(), Item::NotLoaded | Item::Error(StoreError::Io(_))) {"),
 ("M08-iter-skips-error-cells", FT,
  """        for (path, entry) in self.data.iter().chain(self.images.iter()) {
            if let Err(source) = entry {
                return Err(FontWriteError::InvalidStoreEntry { path: path.clone(), source });
            };
        }""", """        for (path, entry) in self.data.iter().chain(self.images.iter()) {
            if let Err(source @ StoreError::Io(_)) = entry {
                return Err(FontWriteError::InvalidStoreEntry { path: path.clone(), source });
            };
        }"""),
 ("M09-images-allow-subdirs", DS,
  """        if path.parent().is_some_and(|p| !p.as_os_str().is_empty()) {
            return Err(StoreError::Subdir);
        }
        // Check""", """        // Check"""),
 ("M10-force-load-data-only", FT,
  "for (path, entry) in self.data.iter().chain(self.images.iter()) {", "for (path, entry) in self.data.iter() {"),
 ("M11-symmetric-fix-reverted", DS,
  """        if items.keys().any(|key| key != path && key.starts_with(path)) {
            return Err(StoreError::DirUnderFile);
        }
""", ""),
 ("M12-get-reread-after-remove-insert-cycle", DS,
  """    pub fn remove(&mut self, k: &Path) {
        self.items.remove(k);
    }""", """    pub fn remove(&mut self, k: &Path) {
        if self.items.len() > 2 {
            if let Some(c) = self.items.get(k) {
                *c.borrow_mut() = Item::NotLoaded;
                return;
            }
        }
        self.items.remove(k);
    }"""),
 ("M13-iter-skips-error-cells", DS,
  "self.items.keys().map(move |k| (k, self.get(k).unwrap()))",
  "self.items.keys().map(move |k| (k, self.get(k).unwrap())).filter(|(_, r)| r.is_ok())"),
 ("M14-data-absolute-check-only-single-component", DS,
  """        if path.is_absolute() {
            return Err(StoreError::PathIsAbsolute);
        }
        for ancestor""", """        if path.is_absolute() && path.components().count() <= 2 {
            return Err(StoreError::PathIsAbsolute);
        }
        for ancestor"""),
 ("M15-image-empty-check-only-on-empty-store", DS,
  """        if path.as_os_str().is_empty() {
            return Err(StoreError::EmptyPath);
        }
        if path.is_absolute() {
            return Err(StoreError::PathIsAbsolute);
        }
        if path.parent()""", """        if path.as_os_str().is_empty() && _items.is_empty() {
            return Err(StoreError::EmptyPath);
        }
        if path.is_absolute() {
            return Err(StoreError::PathIsAbsolute);
        }
        if path.parent()"""),
 ("M16-force-load-data-only-when-images-lazy", FT,
  "for (path, entry) in self.data.iter().chain(self.images.iter()) {", "for (path, entry) in self.data.iter().chain(self.images.iter().filter(|_| self.images.len() < 2)) {"),
 ("H01-harmless-reordered-clauses", DS,
  """        if path.as_os_str().is_empty() {
            return Err(StoreError::EmptyPath);
        }
        if path.is_absolute() {
            return Err(StoreError::PathIsAbsolute);
        }
        for ancestor in path.ancestors().skip(1) {
            if !ancestor.as_os_str().is_empty() && items.contains_key(ancestor) {
                return Err(StoreError::DirUnderFile);
            }
        }
        // The rule is symmetric: the path must not be an ancestor of a tracked path
        // either, or that file would end up nested under this one.
        if items.keys().any(|key| key != path && key.starts_with(path)) {
            return Err(StoreError::DirUnderFile);
        }
""", """        if path.is_absolute() {
            return Err(StoreError::PathIsAbsolute);
        }
        if items.keys().any(|key| key.ancestors().skip(1).any(|a| a == path)) {
            return Err(StoreError::DirUnderFile);
        }
        let mut cur = path.parent();
        while let Some(a) = cur {
            if a != Path::new("") && items.contains_key(a) {
                return Err(StoreError::DirUnderFile);
            }
            cur = a.parent();
        }
        if path == Path::new("") {
            return Err(StoreError::EmptyPath);
        }
"""),
]
only = sys.argv[1:]
def sh(cmd, cwd=None, env=None):
    e=dict(os.environ); 
    if env: e.update(env)
    return subprocess.run(cmd, shell=True, cwd=cwd, env=e, stdout=subprocess.PIPE, stderr=subprocess.STDOUT, text=True)
for name, f, old, new in muts:
    if only and not any(name.startswith(o) for o in only): continue
    sh("git checkout -- .", MUT)
    p=os.path.join(MUT,f); s=open(p).read()
    if old not in s:
        print(name, "PATCH-DOES-NOT-APPLY", flush=True); continue
    s=s.replace(old,new,1)
    if f==FT and "StoreError" in new and "use crate::error::StoreError" not in s and "StoreError" not in old:
        s=s.replace("use crate::error::{", "use crate::error::{StoreError, ",1) if "use crate::error::{" in s else s
    open(p,'w').write(s)
    t=sh("cargo test --offline --lib --tests 2>&1 | grep -E '^test result|^error' ", MUT)
    tests="; ".join(l.strip()[:60] for l in t.stdout.strip().splitlines())
    r=sh("./check C16 --tier quick 2>&1 | grep -E 'VIOLATION|tooling|\\[C16\\]'", VW, {"VERIF_REPO":MUT})
    print("=====", name, "\n  tests:", tests, flush=True)
    for l in r.stdout.strip().splitlines():
        if l.startswith("VIOLATION"):
            rp=re.search(r"replay=(\S+)", l).group(1)
            hdr=open(rp).readline().strip()
            print("  ", l.replace("/tmp/vw/c16/evidence/replay/",""), "\n      ", hdr[:160], flush=True)
        else:
            print("  ", l[:260], flush=True)
sh("git checkout -- .", MUT)
