#!/bin/sh
# MANIFEST.setup_cmd: build the framework from files on disk only (offline).
set -e
cd "$(dirname "$0")"
ROOT="$(pwd)"
export CARGO_NET_OFFLINE=true
mkdir -p .build
( cd lean && lake build Norad driver )
[ -f harness/Cargo.lock ] || cp /repo/Cargo.lock harness/Cargo.lock
( cd harness && CARGO_TARGET_DIR="$ROOT"/.build/target cargo build --release --offline )
( cd harness && CARGO_TARGET_DIR="$ROOT"/.build/target-par cargo build --release --offline --features par )
( cd harness && CARGO_TARGET_DIR="$ROOT"/.build/target-kurbo cargo build --release --offline --features kurbo )
( cd harness && CARGO_TARGET_DIR="$ROOT"/.build/target-debug cargo build --offline )
echo setup-ok
